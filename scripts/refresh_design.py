#!/usr/bin/env python3
"""Refreshes the generated parts of DESIGN.md: the families table (from `cvh families`) and section 12 (mutation tables)."""
import subprocess, os, re
ROOT = os.path.dirname(os.path.dirname(os.path.abspath(__file__)))
p = os.path.join(ROOT, "DESIGN.md"); s = open(p).read()
fam = subprocess.run([os.path.join(ROOT, "harness/target-dev64/debug/cvh"), "families"], capture_output=True, text=True).stdout
table = "| property | quick | thorough |\n|---|---|---|\n" + fam
s = re.sub(r"<!-- families:begin -->.*?<!-- families:end -->", lambda m: "<!-- families:begin -->\n" + table + "<!-- families:end -->", s, flags=re.S)
sec = subprocess.run(["python3", os.path.join(ROOT, "scripts/mutation_table.py")], capture_output=True, text=True).stdout
s = re.sub(r"<!-- section12:begin -->.*?<!-- section12:end -->", lambda m: "<!-- section12:begin -->\n" + sec + "<!-- section12:end -->", s, flags=re.S)
open(p, "w").write(s)
print("DESIGN.md refreshed:", len(fam.splitlines()), "family rows,", len(sec.splitlines()), "lines in section 12")
