#!/usr/bin/env python3
"""Writes /verif/MANIFEST.json from the table below (kept next to the checks so that they stay in step)."""
import json, os, subprocess
ROOT = os.path.dirname(os.path.dirname(os.path.abspath(__file__)))
HOOK_COMMITS = ["b8011d0"]
C = {
"C01": ("reference-model monitor: random + exhaustively enumerated DAG programs run on the real library, leaf / interior / root gradients compared with forward-mode dual numbers (bit-exact where a magnitude shadow certifies integer arithmetic, scaled tolerance otherwise)",
        "8 (C01), 3.1-3.3"),
"C02": ("reference-model monitor over single-operation programs: per-operation parameter x shape grids, every tracked mask, gradients vs forward-mode dual numbers", "8 (C02)"),
"C03": ("reference-model monitor: broadcast operands used 1-3 times over 1-3 passes on the exhaustive shape-pair grid, gradient shape + summed adjoint; optimizer consequence observed after a real GradientDescent::update", "8 (C03)"),
"C04": ("reference-model monitor: exhaustive shape-pair grid (14400 pairs x 5 ops) + random pairs vs multi-index reference zip, bit-exact; refusals observed as panics", "8 (C04)"),
"C05": ("reference-model monitor: enumerated matmul grid (sizes x transposes x leading patterns x additive-term forms), rank-1 forms, perturbed-inner-dimension refusals, non-finite data; bit-exact", "8 (C05)"),
"C06": ("reference-model monitor: enumerated / random convolution configurations vs the 7-loop sliding-window definition, bit-exact, bucket floors (batch x overlap x remainder); frame streams (image dropped, next frame of the same geometry built in the freed buffer and convolved with the same filters)", "8 (C06)"),
"C07": ("reference-model + invariant monitor: every function on every shape of the grid, tracked and untracked operands, reshape refusals, softmax row invariant", "8 (C07)"),
"C08": ("snapshot monitor over long histories: every live alias (clones, views, graph operands, fetched gradients, seeds, pre-update parameters) re-verified bitwise after every step; valgrind memcheck (quick) and Miri + ASan (thorough) stages for in-place writes no alias observes", "8 (C08), 6"),
"C09": ("state monitors: flag reader over the exhaustive operation x tracked-subset table, sole-owner probes, gradient presence vs reference reachability, flags before/after passes, metamorphic second pass, plainness of produced gradients, clone independence, tracked model inputs (also after a plain evaluation of the same batch on the same Model) / targets and cost closures", "8 (C09)"),
"C10": ("history ledger monitor: after every step of random pass / clear / install / toggle / drop histories (and over by-hand and Model passes on real layers) each handle's gradient equals the sum of reference single-pass gradients since its last clear; metamorphic fresh-instance replay of every pass; hook-steered follow-up passes; flag-changed clones and re-used seed arrays as history steps; the Model's prediction gradient compared when present", "8 (C10)"),
"C11": ("trace monitor: invocation log of user derivative closures (Array::op) with fail-fast on a second call; exactly-once, after-all-consumers and complete-adjoint checks over exhaustive small topologies, random DAGs, 2^60-path chains, repeated passes with the caller's seed handle; a scaling probe (thread CPU time of one pass at depth 8 vs 18) for 'work proportional to nodes'; hook trace for built-ins as coverage", "8 (C11)"),
"C12": ("metamorphic monitor: each program vs variants with clones substituted, handles dropped at last use, pass started from clones, gradients read through clones or after detached copies were taken, optimizer step with/without other handles alive; bitwise equality", "8 (C12)"),
"C13": ("direct-arithmetic monitor: every (n<=6, gradient subset) pair, gradients installed directly or by real passes, repeated updates, parameters sharing a value buffer, one-entry lists; values compared bitwise in the build's float type, frozen parameters must keep their very buffer", "8 (C13)"),
"C14": ("history checker over boundary-spy events (SpyLayer/SpyOptimizer inside the real Model): loss, gradients seen by the optimizer and parameters left, per iteration, vs a forward-mode reference step from the observed parameters, under the disturbances user code may cause between the calls", "8 (C14)"),
"C15": ("reference-model monitor: layer / model / cost formulas on parameters set and read through Layer::parameters() (also on layers constructed at other sizes); integer data exact for linear+relu", "8 (C15)"),
"C16": ("direct monitor: constructors, nested construction, every multi-index and flat index on the exhaustive shape grid, refusals, equality truth table", "8 (C16)"),
"C17": ("metamorphic monitor: G(a*s1+b*s2) == a*G(s1)+b*G(s2) and G(None) == G(ones) on fresh instances of the same program", "8 (C17)"),
"C18": ("ownership monitors: sole-owner probe (Vec::from) on every leaf after dropping results, allocation-ledger conservation around programs (a discrepancy must reproduce in three further executions) / histories / training iterations, input / target probes in training and inference loops, a token held by every user derivative closure; valgrind leak check (quick), Miri + LSan (thorough)", "8 (C18), 6"),
"C19": ("the monitors of C01-C07 and C09-C17 recompiled with --features f32 (f32 exactness bound, tau 2e-5) plus an offline diff of per-case metadata logs between the f64 and f32 builds", "8 (C19)"),
}
props = [json.loads(l) for l in open(os.path.join(ROOT, "properties.jsonl"))]
checks = []
for p in props:
    i = p["id"]
    if i not in C: continue
    tech, ref = C[i]
    checks.append({
        "property_id": i,
        "quick_cmd": f"./check {i} quick",
        "thorough_cmd": f"./check {i} thorough",
        "evidence_file": f"/verif/evidence/{i}.json",
        "replay_cmd_template": "./check --replay {path}",
        "engine": "cvh",
        "level_claimed": {"category": "exploration",
                          "text": "runtime monitoring: an oracle observes executions of the real library (built from /repo's working tree) over generated, partly exhaustively enumerated workloads; the property held on the executions observed - nothing is proved, and paths the workloads do not drive are not covered",
                          "design_ref": "DESIGN.md section " + ref},
        "level_note": "trusted base: the reference model (harness/src/refmodel.rs, nn.rs), the generators' reach as reported in the evidence histograms, IEEE-754 arithmetic; verdicts are three-valued (exit 3 = inconclusive, never folded into held)",
        "technique": "runtime monitoring - " + tech,
    })
m = {"version": 1,
     "setup_cmd": "./check --setup",
     "hooks": {"guard": "cargo feature `verif` of corgi (off by default)",
               "enable": "the harness crate depends on corgi by path=/repo with features=[\"verif\"]; hooks are read-only (state probe, children, backward-pass trace) and never adjudicate",
               "baseline_off_cmd": "cd /repo && cargo test --offline",
               "source_commits": HOOK_COMMITS, "add_only": True},
     "engines": [{"name": "cvh", "path": "/verif/harness", "serves_properties": sorted(C),
                  "kind_free_text": "Rust harness (path dependency on /repo, rebuilt by cargo whenever a source file changed): workload generators, reference model, metamorphic/state/trace monitors, 16 sharded worker processes, replay files; sanitizer stages via scripts/san_stage.sh (valgrind, Miri, ASan/LSan)"}],
     "checks": checks,
     "not_applicable": [{"property_id": p["id"], "reason": "not yet registered"} for p in props if p["id"] not in C],
     "notes": "Known findings: /verif/known_findings.txt (12 `fixed:` entries; one open finding - stack use proportional to graph depth - keyed on exact probes for C01, C18, C19). Seeded changes used for calibration: /verif/seeded/*, /verif/calibration/mutants.py; results in DESIGN.md section 12."}
if not m["not_applicable"]: del m["not_applicable"]
json.dump(m, open(os.path.join(ROOT, "MANIFEST.json"), "w"), indent=1)
print("wrote MANIFEST.json with", len(checks), "checks")
