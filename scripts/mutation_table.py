#!/usr/bin/env python3
"""Prints DESIGN.md section 12 (summary) and writes calibration/matrix.md (one row per change) from
calibration/results.jsonl, seeded/*/meta.json, refactors/*, calibration/mutants.py."""
import json, os, glob, sys, re
ROOT = os.path.dirname(os.path.dirname(os.path.abspath(__file__)))
res = {}
for l in open(os.path.join(ROOT, "calibration", "results.jsonl")):
    try:
        r = json.loads(l)
    except Exception:
        continue
    res[(r["id"], r["check"])] = r      # latest entry wins
checks = [f"C{i:02d}" for i in range(1, 20)]
def row_matrix(mid):
    cells = []
    for c in checks:
        r = res.get((mid, c))
        cells.append("." if r is None else ("X" if r["rc"] == 1 else ("?" if r["rc"] == 3 else "-")))
    return "".join(cells)
sys.path.insert(0, os.path.join(ROOT, "calibration"))
from mutants import M

def wave_of(mid):
    m = re.match(r"W(\d+)", mid)
    if m:
        return int(m.group(1))
    return 2 if "-w2" in mid else 1

metas = []
for d in sorted(glob.glob(os.path.join(ROOT, "seeded", "*"))):
    p = os.path.join(d, "meta.json")
    if os.path.exists(p):
        metas.append(json.load(open(p)))

WAVE_NOTE = {
    1: "one agent per property, given only that property's text",
    2: "as wave 1, told which changes already existed and asked for different, harder ones",
    3: "organised by source file; agents saw all 19 property texts",
    4: "by theme (caches, fast paths, call orders, training loops, f32); agents saw the list of all earlier changes",
    5: "single properties with few changes so far, cooperating sites, API call orders, in-domain edge values",
    6: "user operations, gradient access API, conv internals, f32 only, lifetimes, shape bookkeeping on the way back",
    7: "drops and re-binding, construction / equality, dense layers and costs, reductions, pass bookkeeping with aliases, optimizer",
    8: "composite user programs, unusual sizes, tracking flags, matmul internals, hidden caches, value-dependent fast paths",
    9: "one property per agent (C01, C04-C06, C08, C12, C17+C03, C18+C10)",
    10: "std traits, N-th call state, user-defined layers, refusals, conv beyond small sizes, reference-count decisions",
    11: "one source file per agent, sites with few changes so far",
    12: "tolerance-sized errors, rare call orders, broadcasting corners, ownership in layers, f32, pass scheduling",
    13: "three-feature interactions, swapped symmetric names, loop boundaries, panics turned silent, iteration state, sizes nobody tries",
    14: "two properties per agent (C02+C03, C13+C15, C10+C12, C16+C07, C01+C17, C08+C18)",
    15: "C04+C06, C05, C09, C11+C12, C14+C15, C19",
    16: "C03+C06, C13+C16, C17+C18, C02+C07, C01+C10, C08+C09",
    17: "free choice in the least-touched functions, cooperating sites, f32",
    18: "three agents: triggers that need a combination (array core, linalg / image, model / layers / optimizer)",
    23: "two changes per agent: matmul operand combinations, scheduling of one pass, sums / reshapes / reduction of broadcast adjoints, in-place writes into buffers somebody still holds",
    22: "two changes per agent: identity-keyed shortcuts, Model / Layer internals, operators with plain numbers inside graphs, construction / indexing / equality, nonlinearities and costs",
    21: "more workflows, two changes per agent: several losses over shared parameters, shape plumbing, scopes / helper functions / long loops, explicit seeds, hand-written networks, f32 inside multi-step workflows",
    20: "realistic user workflows: inference loops, checkpoints / copies / logging, transfer learning and model surgery, custom optimisation, data pipelines, user-defined operations",
    19: "arithmetic / nonlinearity, model / layers / optimizer / costs, construction / lifetime, tracking / gradient access, f32 only, things random generators rarely produce",
}

def own(m):
    return res.get((m["id"], m["property"]))

print("## 12. Calibration: which checks catch which changes\n")
print("Every check was run on the unchanged (repaired) tree at many seeds until silent (section 10), then against changes that *compile and")
print("pass the repository's 69 tests*: (a) 20 pattern mutants written by me (`calibration/mutants.py`), (b) changes written by independent")
print("sub-agents that were given only property texts, a theme, the one-line list of earlier changes (so as not to repeat them) and a")
print("scratch worktree - nothing from /verif. Each change is kept as `seeded/<id>/` (`patch.diff`, `demo.rs` failing with / passing")
print("without it, `notes.md`, `meta.json` with what I re-ran to confirm it). `scripts/mutation_run.py` applies a change (to `/repo`'s")
print("working tree, or with `--sandbox` to a scratch worktree plus a copy of /verif), re-runs the repository tests, runs the check(s)")
print("and always undoes the change; nothing of this is ever committed to `/repo`. Results are logged in `calibration/results.jsonl`;")
print("`calibration/matrix.md` has one row per change (what it does, which of C01..C19 flag it, the first signature of its own check).\n")
print("After every wave the changes that escaped their own property's check were analysed and the checks extended (table below the")
print("summary); the summary shows the state on the final checks (quick tier, seed 1).\n")
print("| wave | how the agents were briefed | changes | caught by own check | not required (see meta.json) | escaped on arrival |")
print("|---|---|---|---|---|---|")
arrival = {}
try:
    arrival = json.load(open(os.path.join(ROOT, "calibration", "arrival.json")))
except Exception:
    pass
tot = [0, 0, 0]
for w in sorted(set(wave_of(m["id"]) for m in metas)):
    ms = [m for m in metas if wave_of(m["id"]) == w]
    nr = [m for m in ms if m.get("not_required")]
    det = [m for m in ms if not m.get("not_required") and (own(m) or {}).get("rc") == 1]
    req = len(ms) - len(nr)
    tot[0] += len(ms); tot[1] += len(det); tot[2] += len(nr)
    print(f"| {w} | {WAVE_NOTE.get(w, '')} | {len(ms)} | {len(det)} of {req} | {len(nr)} | {arrival.get(str(w), '-')} |")
print(f"| all | | {tot[0]} | {tot[1]} of {tot[0] - tot[2]} | {tot[2]} | |\n")
cal_det = sum(1 for m in M if (res.get((m[0], m[1])) or {}).get("rc") == 1)
print(f"Pattern mutants (a): {cal_det} of {len(M)} caught by their own property's check.\n")
missing = [m["id"] for m in metas if not m.get("not_required") and (own(m) or {}).get("rc") != 1]
if missing:
    print("Not caught by their own check on the final run: " + ", ".join(missing) + ".\n")
print(open(os.path.join(ROOT, "calibration", "strengthened.md")).read())
print(open(os.path.join(ROOT, "calibration", "refactorings.md")).read())
print("""Detection power is statistical outside the enumerated sub-spaces: a change that needs, say, a dimension of exactly 17 *and*
rank 5 will not be hit by the quick tier; the evidence histograms (cells, ranks, depths, path counts, pass kinds) make
such holes visible, and the thorough tier widens sizes by 10-100x. The escape rate on arrival (two to nine of about
eighteen per wave, to the end) is the honest measure of what a further, unseen change can expect.""")

# ---- calibration/matrix.md
out = []
out.append("# One row per change: which checks flag it\n")
out.append("Matrix column = checks C01..C19 in order: `X` flagged (exit 1 + VIOLATION), `-` silent, `?` inconclusive (watchdog), `.` not run")
out.append("against this change. Cross-check columns of the earlier waves were produced with the checks as they stood then (conservative);")
out.append("the own-check column is from the final checks.\n")
def table(title, rows):
    out.append(f"## {title}\n")
    out.append("| id | property | what the change does / what it needs to manifest | C01..C19 | first signature (own check) |")
    out.append("|---|---|---|---|---|")
    for mid, prop, text, nr in rows:
        r = res.get((mid, prop))
        sig = ("`" + r["first_signature"][:80] + "`") if r and r["rc"] == 1 else ("not required" if nr else ("NOT DETECTED" if r else "not run"))
        out.append(f"| {mid} | {prop} | {text} | `{row_matrix(mid)}` | {sig} |")
    out.append("")
table("Pattern mutants (calibration/mutants.py)", [(m[0], m[1], "pattern mutant", False) for m in M])
for w in sorted(set(wave_of(m["id"]) for m in metas)):
    table(f"Wave {w}", [(m["id"], m["property"], m.get("summary", "see notes.md"), bool(m.get("not_required"))) for m in metas if wave_of(m["id"]) == w])
open(os.path.join(ROOT, "calibration", "matrix.md"), "w").write("\n".join(out) + "\n")
