#!/usr/bin/env python3
"""Prints DESIGN.md section 12 (calibration tables) from calibration/results.jsonl, seeded/*/meta.json, calibration/mutants.py."""
import json, os, glob, sys
ROOT = os.path.dirname(os.path.dirname(os.path.abspath(__file__)))
res = {}
for l in open(os.path.join(ROOT, "calibration", "results.jsonl")):
    r = json.loads(l); res[(r["id"], r["check"])] = r      # latest entry wins
checks = [f"C{i:02d}" for i in range(1, 20)]
def row_matrix(mid):
    cells = []
    for c in checks:
        r = res.get((mid, c))
        cells.append("." if r is None else ("X" if r["rc"] == 1 else ("?" if r["rc"] == 3 else "-")))
    return "".join(cells)
sys.path.insert(0, os.path.join(ROOT, "calibration"))
from mutants import M
print("## 12. Calibration: which checks catch which changes\n")
print("Every check was run on the unchanged (repaired) tree at many seeds until silent (section 10), then against changes that *compile and pass")
print("the repository's 69 tests*: (a) pattern mutants written by me (`calibration/mutants.py`), (b) changes written by independent")
print("sub-agents that were given only property texts and a scratch worktree - three waves; the second wave was also told which")
print("mutations already existed and asked for different, harder ones, the third was organised by source file and bug category (`seeded/<id>/`: `patch.diff`, `demo.rs` failing with / passing without")
print("the change, `notes.md`, `meta.json` with what I re-ran to confirm it). `scripts/mutation_run.py` applies each change (to `/repo`'s working")
print("tree, or with `--sandbox` to a scratch worktree plus a copy of /verif), re-runs the repository tests, runs the check(s) and always undoes")
print("the change. Nothing of this is ever committed to `/repo`. Results are logged in `calibration/results.jsonl`.\n")
print("Matrix column = checks C01..C19 in order: `X` detected (exit 1 + VIOLATION), `-` silent, `?` inconclusive, `.` not run. The first")
print("signature is the one reported by the property's own check (quick tier, seed 1).\n")
def table(title, rows):
    own = sum(1 for r in rows if res.get((r[0], r[1]), {}).get("rc") == 1)
    print(f"### {title} - {own} of {len(rows)} detected by their own property's check\n")
    print("| id | property | what the change does / what it needs to manifest | C01..C19 | first signature (own check) |")
    print("|---|---|---|---|---|")
    for mid, prop, text in rows:
        r = res.get((mid, prop))
        sig = ("`" + r["first_signature"][:70] + "`") if r and r["rc"] == 1 else ("NOT DETECTED" if r else "not run")
        print(f"| {mid} | {prop} | {text} | `{row_matrix(mid)}` | {sig} |")
    print()
table("(a) calibration mutants", [(m[0], m[1], "pattern mutant, see calibration/mutants.py") for m in M])
rows = []
for d in sorted(glob.glob(os.path.join(ROOT, "seeded", "*"))):
    m = json.load(open(os.path.join(d, "meta.json")))
    rows.append((m["id"], m["property"], m.get("summary", "see notes.md")))
table("(b) seeded changes from sub-agents, wave 1", [r for r in rows if "-w2" not in r[0] and not r[0].startswith("W")])
table("(c) seeded changes from sub-agents, wave 2", [r for r in rows if "-w2" in r[0]])
table("(d) seeded changes from sub-agents, wave 3 (organised by source file; each agent saw all 19 property texts)", [r for r in rows if r[0].startswith("W3")])
table("(e) seeded changes from sub-agents, wave 4 (organised by theme; agents saw the list of all earlier mutations)", [r for r in rows if r[0].startswith("W4")])
print(open(os.path.join(ROOT, "calibration", "strengthened.md")).read())
print(open(os.path.join(ROOT, "calibration", "refactorings.md")).read())
print("""Detection power is statistical outside the enumerated sub-spaces: a change that needs, say, a dimension of exactly 17 *and*
rank 5 will not be hit by the quick tier; the evidence histograms (cells, ranks, depths, path counts, pass kinds) make
such holes visible, and the thorough tier widens sizes by 10-100x.""")
