#!/bin/bash
exec "$(dirname "$0")/san_stage.sh" C18 "$1" "$2"
