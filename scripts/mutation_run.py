#!/usr/bin/env python3
"""Apply mutants to /repo's working tree one at a time, confirm the repository's own tests still pass, run the
named property's check, and always undo the change (git checkout). Never commits to /repo.

  mutation_run.py calibration [name-substring] [--tier quick] [--checks C01,C02]   pattern mutants (calibration/mutants.py)
  mutation_run.py seeded [id-substring] [--all-checks]                              /verif/seeded/<id>/patch.diff
"""
import subprocess, sys, os, json, glob, time
ROOT = os.path.dirname(os.path.dirname(os.path.abspath(__file__)))
REPO = "/repo"
SEEDED = os.path.join(ROOT, "seeded")
CALIB = os.path.join(ROOT, "calibration")

def make_sandbox(name):
    """An isolated copy (scratch worktree of /repo + copy of /verif with the path dependency redirected) so that
    mutation trials never touch /repo itself and several of them can run in parallel. Removed by --cleanup."""
    global ROOT, REPO
    base = f"/tmp/mutsb-{name}"
    repo, verif = base + "/repo", base + "/verif"
    if not os.path.exists(repo):
        os.makedirs(base, exist_ok=True)
        subprocess.run(f"git -C /repo worktree add -q --detach {repo} HEAD && cp /repo/Cargo.lock {repo}/", shell=True, check=True)
    subprocess.run(f"mkdir -p {verif} && rsync -a --delete --exclude 'target*' --exclude tmp --exclude replays --exclude .git --exclude evidence {ROOT}/ {verif}/ && mkdir -p {verif}/evidence {verif}/tmp", shell=True, check=True)
    subprocess.run(f"sed -i 's#path = \"/repo\"#path = \"{repo}\"#' {verif}/harness/Cargo.toml", shell=True, check=True)
    ROOT, REPO = verif, repo

def cleanup_sandbox(name):
    base = f"/tmp/mutsb-{name}"
    subprocess.run(f"git -C /repo worktree remove --force {base}/repo; git -C /repo worktree prune; rm -rf {base}", shell=True)
ENV = dict(os.environ, CARGO_NET_OFFLINE="true", CVH_WATCHDOG_S=os.environ.get("CVH_WATCHDOG_S", "240"))

def sh(cmd, cwd=None, timeout=3600):
    r = subprocess.run(cmd, cwd=cwd, shell=True, capture_output=True, text=True, env=ENV, timeout=timeout)
    return r.returncode, r.stdout + r.stderr

def repo_clean():
    rc, out = sh("git status --porcelain --untracked-files=no", REPO)
    out = "\n".join(l for l in out.splitlines() if "Cargo.lock" not in l)
    return out.strip() == ""

def revert():
    # (patches may add files: remove untracked sources too)
    sh("git checkout -- . ; git clean -fdq src", REPO)

def repo_tests():
    rc, out = sh("cargo test --offline 2>&1 | grep -E '^test result|FAILED|^error' | head -8", REPO)
    ok = "FAILED" not in out and "error" not in out and out.count("test result: ok") >= 2
    return ok, out.strip().replace("\n", " | ")

def run_check(prop, tier="quick"):
    t = time.time()
    rc, out = sh(f"./check {prop} {tier}", ROOT, timeout=7200)
    first = [l for l in out.splitlines() if l.startswith("VIOLATION")] or [l for l in out.splitlines() if l.startswith("INCONCLUSIVE") or l.startswith("KNOWN")]
    sigs = [l.strip() for l in out.splitlines() if l.strip().startswith("signature ")]
    return rc, (first[0] if first else ""), sigs[:3], time.time() - t

RESULTS = os.path.join(os.path.dirname(os.path.dirname(os.path.abspath(__file__))), "calibration", "results.jsonl")

def record(kind, mid, prop, chk, tests_ok, rc, first, tier):
    sig = ""
    if "signature=" in first: sig = first.split("signature=", 1)[1].strip()
    with open(RESULTS, "a") as f:
        f.write(json.dumps({"id": mid, "kind": kind, "property": prop, "check": chk, "repo_tests_pass": tests_ok, "rc": rc,
                            "first_signature": sig, "tier": tier, "when": time.strftime("%Y-%m-%dT%H:%M:%S")}) + "\n")

def main():
    args = sys.argv[1:]
    mode = args[0] if args else "calibration"
    if mode not in ("calibration", "seeded", "refactor", "x"):
        print("usage: mutation_run.py calibration|seeded|refactor [id-substring ...] [--tier quick|thorough] [--checks C01,..|all] [--sandbox NAME [--cleanup]]")
        sys.exit(2)
    # positional selectors = everything that is not an option or an option's value
    opt_with_value = ("--tier", "--checks", "--sandbox")
    sel = [a for i, a in enumerate(args[1:], 1) if not a.startswith("--") and args[i - 1] not in opt_with_value]
    tier = "quick"
    checks = None
    if "--tier" in args: tier = args[args.index("--tier") + 1]
    if "--checks" in args:
        checks = args[args.index("--checks") + 1].split(",")
        if checks == ["all"]: checks = [f"C{i:02d}" for i in range(1, 20)]
    if "--sandbox" in args:
        sb = args[args.index("--sandbox") + 1]
        if "--cleanup" in args:
            cleanup_sandbox(sb); return
        make_sandbox(sb)
    if not repo_clean():
        print("refusing: /repo has uncommitted changes"); sys.exit(2)
    results = []
    try:
        if mode == "calibration":
            sys.path.insert(0, CALIB)
            from mutants import M
            for name, prop, f, old, new in M:
                if sel and not any(s in name for s in sel): continue
                p = os.path.join(REPO, f); s = open(p).read()
                olds = old if isinstance(old, list) else [old]; news = new if isinstance(new, list) else [new]
                if any(o not in s for o in olds):
                    print(f"{name:42} PATTERN-NOT-FOUND"); continue
                for o, n in zip(olds, news): s = s.replace(o, n, 1)
                open(p, "w").write(s)
                ok, tests = repo_tests()
                line = f"{name:42} {prop} tests={'pass' if ok else 'FAIL'}"
                for c in (checks or [prop]):
                    rc, first, sigs, dt = run_check(c, tier)
                    line += f" | {c}: rc={rc} {dt:.0f}s {first[:110]} {sigs[:1]}"
                    results.append((name, c, ok, rc))
                    record("calibration", name, prop, c, ok, rc, first, tier)
                print(line, flush=True)
                revert()
        elif mode == "refactor":
            # behaviour-preserving refactorings: every check must stay silent (exit 0)
            for d in sorted(glob.glob(os.path.join(os.path.dirname(SEEDED), "refactors", "*"))):
                rid = os.path.basename(d)
                if sel and not any(s in rid for s in sel): continue
                rc, out = sh(f"git apply {d}/patch.diff", REPO)
                if rc != 0:
                    print(f"{rid:30} PATCH-DOES-NOT-APPLY {out[:100]}"); revert(); continue
                ok, tests = repo_tests()
                line = f"{rid:30} tests={'pass' if ok else 'FAIL'}"
                for c in (checks or [f"C{i:02d}" for i in range(1, 20)]):
                    rc, first, sigs, dt = run_check(c, tier)
                    if rc != 0:
                        line += f" | {c}: rc={rc} {first[:140]} {sigs[:2]}"
                    results.append((rid, c, ok, 1 if rc == 0 else 0))   # "detected" column reused: 1 = silent as expected
                    record("refactor", rid, "-", c, ok, rc, first, tier)
                print(line + " | (all other checks silent)", flush=True)
                revert()
        else:
            for d in sorted(glob.glob(os.path.join(SEEDED, "*"))):
                sid = os.path.basename(d)
                if sel and not any(s in sid for s in sel): continue
                meta = json.load(open(os.path.join(d, "meta.json"))) if os.path.exists(os.path.join(d, "meta.json")) else {}
                prop = meta.get("property", sid[:3])
                rc, out = sh(f"git apply {d}/patch.diff", REPO)
                if rc != 0:
                    print(f"{sid:30} PATCH-DOES-NOT-APPLY {out[:100]}"); revert(); continue
                ok, tests = repo_tests()
                line = f"{sid:30} {prop} tests={'pass' if ok else 'FAIL'}"
                for c in (checks or [prop]):
                    rc, first, sigs, dt = run_check(c, tier)
                    line += f" | {c}: rc={rc} {dt:.0f}s {first[:110]} {sigs[:1]}"
                    results.append((sid, c, ok, rc))
                    record("seeded", sid, prop, c, ok, rc, first, tier)
                print(line, flush=True)
                revert()
    finally:
        revert()
    missed = [r for r in results if r[3] != 1]
    print(f"\n{len(results)} mutant/check runs, detected {len(results)-len(missed)}, not detected: {[(m[0], m[1], m[3]) for m in missed]}")

if __name__ == "__main__":
    main()
