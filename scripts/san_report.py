#!/usr/bin/env python3
"""Parse sanitizer logs into shard-report lines (merged by `cvh run`).  san_report.py <tool> <ID> <workdir> <nshards>"""
import sys, os, re, glob
tool, pid, work, ns = sys.argv[1], sys.argv[2], sys.argv[3], int(sys.argv[4])
label = {"valgrind": pid + "vg", "miri": pid + "miri", "asan": pid + "asan"}[tool]
def esc(s): return s.replace("\\", "\\\\").replace("\n", "\\n").replace("\t", "\\t")
out = []
cases = 0; started = 0; worker_violations = []
for s in range(ns):
    rp = os.path.join(work, f"report.{label}.{s}")
    if os.path.exists(rp):
        started += 1
        for line in open(rp):
            p = line.rstrip("\n").split("\t")
            if p[0] == "E": cases += int(p[1])
            elif p[0] in ("V", "G", "N"):
                out.append(line.rstrip("\n"))     # violations found by the monitors while running under the sanitizer
            elif p[0] == "X":
                out.append(line.rstrip("\n"))
reports = 0; details = []
if tool == "valgrind":
    lost_b = lost_n = 0; errs = 0
    for s in range(ns):
        lp = os.path.join(work, f"vg.{s}.log")
        if not os.path.exists(lp): continue
        t = open(lp, errors="replace").read()
        for kind in ("definitely lost", "indirectly lost"):
            m = re.search(kind + r": ([\d,]+) bytes in ([\d,]+) blocks", t)
            if m:
                lost_b += int(m.group(1).replace(",", "")); lost_n += int(m.group(2).replace(",", ""))
        m = re.search(r"ERROR SUMMARY: ([\d,]+) errors", t)
        if m: errs += int(m.group(1).replace(",", ""))
        for m in re.finditer(r"(Invalid (?:read|write) of size \d+|[\d,]+ (?:\([^)]*\) )?bytes in [\d,]+ blocks are (?:definitely|indirectly) lost[^\n]*)\n((?:==\d+==    (?:at|by) [^\n]*\n){1,14})", t):
            frames = [l.split(": ", 1)[-1] for l in m.group(2).splitlines()]
            repo = [f for f in frames if "corgi" in f]
            details.append(m.group(1) + " | " + " <- ".join((repo or frames)[:4]))
    out.append(f"C\tvalgrind_shards_completed\t{started}")
    out.append(f"C\tvalgrind_cases_executed\t{cases}")
    out.append(f"C\tvalgrind_lost_blocks(definite+indirect)\t{lost_n}")
    out.append(f"C\tvalgrind_lost_bytes(definite+indirect)\t{lost_b}")
    out.append(f"C\tvalgrind_error_contexts\t{errs}")
    reports = lost_n + errs
elif tool == "miri":
    ub = leaks = 0; ok = 0
    for s in range(ns):
        lp = os.path.join(work, f"miri.{s}.log")
        if not os.path.exists(lp): continue
        t = open(lp, errors="replace").read()
        if "exit=0" in t: ok += 1
        for m in re.finditer(r"error: (Undefined Behavior[^\n]*|memory leaked[^\n]*|[^\n]*unsupported operation[^\n]*)", t):
            if "Undefined" in m.group(1): ub += 1
            elif "leaked" in m.group(1): leaks += 1
            ctx = t[m.start():m.start() + 1200]
            loc = re.findall(r"--> ([^\n]*)", ctx)
            details.append(m.group(1)[:200] + " | " + " <- ".join(loc[:3]))
    out.append(f"C\tmiri_shards_clean_exit\t{ok}")
    out.append(f"C\tmiri_cases_executed\t{cases}")
    out.append(f"C\tmiri_undefined_behaviour_reports\t{ub}")
    out.append(f"C\tmiri_leak_reports\t{leaks}")
    reports = ub + leaks
    if ok + ub + leaks == 0:
        sys.stderr.write("miri produced neither clean exits nor reports\n"); sys.exit(3)
else:
    heap = leaks = 0; ok = 0
    for s in range(ns):
        lp = os.path.join(work, f"asan.{s}.log")
        if not os.path.exists(lp): continue
        t = open(lp, errors="replace").read()
        if "exit=0" in t: ok += 1
        for m in re.finditer(r"ERROR: (AddressSanitizer|LeakSanitizer): ([^\n]*)", t):
            if m.group(1) == "LeakSanitizer": leaks += 1
            else: heap += 1
            ctx = t[m.start():m.start() + 3000]
            fr = [f for f in re.findall(r"#\d+ 0x[0-9a-f]+ in ([^\n]*)", ctx) if "corgi" in f]
            details.append(m.group(2)[:120] + " | " + " <- ".join(fr[:3]))
    out.append(f"C\tasan_shards_clean_exit\t{ok}")
    out.append(f"C\tasan_cases_executed\t{cases}")
    out.append(f"C\tasan_heap_error_reports\t{heap}")
    out.append(f"C\tlsan_leak_reports\t{leaks}")
    reports = heap + leaks
    if ok + heap + leaks == 0:
        sys.stderr.write("asan binaries produced neither clean exits nor reports\n"); sys.exit(3)
if started == 0 and reports == 0:
    sys.stderr.write(f"{tool}: no worker completed and no report was produced\n"); sys.exit(3)
out.append("S\t" + esc(f"[sanitizer {tool}] {cases} cases of the {pid} workload executed under {tool}; {reports} report(s)" + ("; first: " + details[0] if details else "")))
seen = set()
for d in details:
    # signature: tool + first in-repo frame / location (deduplicated)
    key = re.sub(r"0x[0-9a-f]+|\d+", "N", d.split(" | ")[-1])[:90]
    sig = f"{pid}|sanitizer|{tool}|{re.sub(r'[0-9,]+', 'N', d.split(' | ')[0])[:60]}|{key}"
    if sig in seen: continue
    seen.add(sig)
    out.append(f"V\t{esc(sig)}\tsanitizer-{tool}\t0\t{esc(d)}")
    out.append(f"G\t{esc(sig)}\t1")
    out.append("N\t1")
print("\n".join(out))
