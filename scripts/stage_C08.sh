#!/bin/bash
exec "$(dirname "$0")/san_stage.sh" C08 "$1" "$2"
