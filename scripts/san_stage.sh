#!/bin/bash
# Sanitizer stages shared by C08 and C18:  san_stage.sh <ID> <tier> <report-out>
#   quick   : C18 -> valgrind memcheck leak check;   C08 -> valgrind memcheck (invalid writes) on the snapshot workload
#   thorough: + Miri (UB + leaks) and ASan/LSan builds
# Writes a shard-format report (C/S/V lines) that `cvh run` merges into the evidence. A sanitizer that cannot start
# makes this script exit non-zero (-> inconclusive), never a violation.
set -u
ID="$1"; TIER="$2"; OUT="$3"
ROOT="$(cd "$(dirname "$0")/.." && pwd)"; H="$ROOT/harness"
SEED="${VERIF_SEED:-1}"
WORK="$ROOT/tmp/san.$ID.$TIER.$$"; rm -rf "$WORK"; mkdir -p "$WORK"
: > "$OUT"
export CARGO_NET_OFFLINE=true
TNL="$H/target-noledger"

emit() { printf '%s\n' "$1" >> "$OUT"; }

# ---- valgrind memcheck on the plain (no ledger) dev build -------------------------------------------------
(cd "$H" && cargo build --offline --target-dir "$TNL" --no-default-features >"$WORK/build.log" 2>&1) || { cat "$WORK/build.log" | tail -20 >&2; exit 3; }
LIM=$([ "$TIER" = thorough ] && echo 400 || echo 48)
MIRI_LIMIT=$([ "$ID" = C08 ] && echo 128 || echo 32)
NS=8
pids=()
for s in $(seq 0 $((NS-1))); do
  valgrind --leak-check=full --show-leak-kinds=definite,indirect --errors-for-leak-kinds=definite,indirect \
     --error-exitcode=0 --log-file="$WORK/vg.$s.log" "$TNL/debug/cvh" worker "$ID" quick "$SEED" "$s" "$NS" "$WORK" --label "${ID}vg" --limit $LIM --stack-mb 64 >/dev/null 2>"$WORK/vg.$s.err" &
  pids+=($!)
done
for p in "${pids[@]}"; do wait "$p" || true; done
python3 "$ROOT/scripts/san_report.py" valgrind "$ID" "$WORK" "$NS" >> "$OUT" || exit 3

if [ "$TIER" = thorough ]; then
  # ---- Miri: undefined behaviour (e.g. writes through shared references / raw pointers) and leaks at exit ---
  MT="$H/target-miri"
  (cd "$H" && MIRIFLAGS="-Zmiri-disable-isolation" cargo +nightly miri run --offline --target-dir "$MT" --no-default-features -- list >"$WORK/miri.build.log" 2>&1) || { tail -20 "$WORK/miri.build.log" >&2; exit 3; }
  NS=16; pids=()
  for s in $(seq 0 $((NS-1))); do
    (cd "$H" && MIRIFLAGS="-Zmiri-disable-isolation" \
       cargo +nightly miri run --offline --target-dir "$MT" --no-default-features -- worker "$ID" quick "$SEED" "$s" "$NS" "$WORK" --label "${ID}miri" --limit $MIRI_LIMIT --stack-mb 16 >"$WORK/miri.$s.log" 2>&1; echo "exit=$?" >> "$WORK/miri.$s.log") &
    pids+=($!)
  done
  for p in "${pids[@]}"; do wait "$p" || true; done
  python3 "$ROOT/scripts/san_report.py" miri "$ID" "$WORK" "$NS" >> "$OUT" || exit 3

  # ---- ASan + LSan -------------------------------------------------------------------------------------------
  AT="$H/target-asan"
  (cd "$H" && RUSTFLAGS="-Zsanitizer=address -Cforce-frame-pointers=yes" cargo +nightly build --offline --target x86_64-unknown-linux-gnu --target-dir "$AT" --no-default-features >"$WORK/asan.build.log" 2>&1) || { tail -20 "$WORK/asan.build.log" >&2; exit 3; }
  NS=16; pids=()
  for s in $(seq 0 $((NS-1))); do
    (ASAN_OPTIONS="detect_leaks=1:halt_on_error=1:abort_on_error=0:exitcode=23" \
       "$AT/x86_64-unknown-linux-gnu/debug/cvh" worker "$ID" quick "$SEED" "$s" "$NS" "$WORK" --label "${ID}asan" --limit 4000 --stack-mb 256 >"$WORK/asan.$s.log" 2>&1; echo "exit=$?" >> "$WORK/asan.$s.log") &
    pids+=($!)
  done
  for p in "${pids[@]}"; do wait "$p" || true; done
  python3 "$ROOT/scripts/san_report.py" asan "$ID" "$WORK" "$NS" >> "$OUT" || exit 3
fi
rm -rf "$WORK"
exit 0
