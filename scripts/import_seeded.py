#!/usr/bin/env python3
"""Confirm and import a sub-agent's seeded change:  import_seeded.py C10 m1 [needs-text]
Confirms in the scratch worktree /tmp/wt-<ID>: repository tests pass with the patch; demo fails with it; demo passes
without it. On success copies patch.diff, demo.rs, notes.md to /verif/seeded/<ID>-<m>/ and writes meta.json."""
import subprocess, sys, os, json, shutil
pid, m = sys.argv[1], sys.argv[2]
wave = os.environ.get("WAVE", "")          # WAVE=2 -> worktree /tmp/wt2-<ID>, id <ID>-w2<m>
wt = f"/tmp/wt{wave}-{pid}"; src = f"{wt}/seeded_out/{m}"; dst = f"/verif/seeded/{pid}-{('w'+wave) if wave else ''}{m}"
prop = pid
if wave in ("3", "4", "5", "6", "7", "8", "9", "10", "11", "12", "13", "14", "15", "16", "17", "18", "19", "20", "21", "22", "23"):
    # round 3 is organised by source area (A..F); the property comes from argv[3] or the first Cxx named in notes.md
    import re
    dst = f"/verif/seeded/W{wave}{pid}-{m}"
    txt = open(f"{src}/notes.md").read() if os.path.exists(f"{src}/notes.md") else ""
    mm = re.search(r"C(0[1-9]|1[0-9])", txt)
    prop = sys.argv[3] if len(sys.argv) > 3 and sys.argv[3].startswith("C") else (mm.group(0) if mm else "C01")
env = dict(os.environ, CARGO_NET_OFFLINE="true")
def sh(c):
    r = subprocess.run(c, cwd=wt, shell=True, capture_output=True, text=True, env=env); return r.returncode, r.stdout + r.stderr
notes = open(f"{src}/notes.md").read() if os.path.exists(f"{src}/notes.md") else ""
f32 = "--features f32" if ("f32" in notes and (pid == "C19" or prop == "C19")) else ""
sh("git checkout -- . ; rm -f tests/demo.rs")
rc, out = sh(f"git apply {src}/patch.diff")
if rc: print("patch does not apply", out); sys.exit(1)
rc, out = sh("cargo test --offline 2>&1 | grep -E '^test result|FAILED'")
suite_ok = "FAILED" not in out and out.count("test result: ok") >= 2
os.makedirs(f"{wt}/tests", exist_ok=True); shutil.copy(f"{src}/demo.rs", f"{wt}/tests/demo.rs")
rc_with, out_with = sh(f"cargo test --offline {f32} --test demo 2>&1 | grep -E '^test result|FAILED|error' | head -5")
sh("git checkout -- .")
rc_wo, out_wo = sh(f"cargo test --offline {f32} --test demo 2>&1 | grep -E '^test result|FAILED|error' | head -5")
sh("rm -f tests/demo.rs; rmdir tests 2>/dev/null")
demo_fails_with = "FAILED" in out_with or "failed" in out_with
demo_passes_without = "test result: ok" in out_wo and "FAILED" not in out_wo
print(f"{pid}-{m}: suite_ok={suite_ok} demo_fails_with_change={demo_fails_with} demo_passes_without={demo_passes_without}")
if not (suite_ok and demo_fails_with and demo_passes_without):
    print(out, out_with, out_wo); sys.exit(1)
os.makedirs(dst, exist_ok=True)
for f in ("patch.diff", "demo.rs", "notes.md"):
    if os.path.exists(f"{src}/{f}"): shutil.copy(f"{src}/{f}", f"{dst}/{f}")
meta = {"id": os.path.basename(dst), "property": prop, "source": "independent sub-agent given only the property text and a scratch worktree",
        "needs_to_manifest": sys.argv[3] if len(sys.argv) > 3 else "see notes.md",
        "confirmed": {"repo_tests_pass_with_change": suite_ok, "demo_fails_with_change": demo_fails_with, "demo_passes_without_change": demo_passes_without,
                      "commands": ["git apply patch.diff; cargo test --offline", f"cargo test --offline {f32} --test demo (with change)", f"cargo test --offline {f32} --test demo (without change)"]},
        "features": f32}
json.dump(meta, open(f"{dst}/meta.json", "w"), indent=1)
print("imported to", dst)
