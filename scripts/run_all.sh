#!/bin/bash
# run_all.sh [quick|thorough] : every registered check, one line each
cd "$(dirname "$0")/.."
TIER="${1:-quick}"
for i in 01 02 03 04 05 06 07 08 09 10 11 12 13 14 15 16 17 18 19; do
  s=$(date +%s.%N)
  out=$(./check C$i $TIER 2>&1); rc=$?
  e=$(date +%s.%N)
  printf "C%s rc=%d %5.1fs %s\n" $i $rc $(echo "$e - $s" | bc) "$(echo "$out" | grep -E "^(C[0-9]+ |VIOLATION|INCONCLUSIVE|KNOWN)" | head -2 | tr '\n' ' ' | cut -c1-200)"
done
