//! Networks: specs, reference network (generic scalar, forward-mode gradients), boundary spies for `Layer` and
//! `Optimizer`, and drivers for spied / ledger-bracketed training runs on the real `Model`.

use crate::cg::*;
use crate::ctx::guard;
use crate::ledger;
use crate::refmodel::*;
use crate::rng::Rng;
use corgi::activation::{self, Activation};
use corgi::array::Array;
use corgi::cost::{self, CostFunction};
use corgi::initializer::Initializer;
use corgi::layer::conv::Conv;
use corgi::layer::dense::Dense;
use corgi::layer::Layer;
use corgi::model::Model;
use corgi::numbers::Float;
use corgi::optimizer::gd::GradientDescent;
use corgi::optimizer::Optimizer;
use std::cell::RefCell;
use std::rc::Rc;

#[derive(Clone, Copy, Debug, PartialEq)]
pub enum Act {
    None,
    Relu,
    Sigmoid,
    Softmax,
}

#[derive(Clone, Debug)]
pub enum LSpec {
    Dense { inp: usize, out: usize, act: Act },
    Conv { filters: (usize, usize, usize, usize), stride: (usize, usize), act: Act },
    // user-defined implementations of the Layer trait (written with library operators), as Model must accept them:
    /// no parameters: a pure activation layer
    ActOnly { act: Act },
    /// one parameter: a per-feature gain, x * g
    Gain { n: usize },
    /// three parameters (weights, gain, bias): act((x W^T) * g + b)
    Affine3 { inp: usize, out: usize, act: Act },
}
impl LSpec {
    pub fn n_params(&self) -> usize {
        match self {
            LSpec::Dense { .. } | LSpec::Conv { .. } => 2,
            LSpec::ActOnly { .. } => 0,
            LSpec::Gain { .. } => 1,
            LSpec::Affine3 { .. } => 3,
        }
    }
    pub fn act(&self) -> Act {
        match self {
            LSpec::Dense { act, .. } | LSpec::Conv { act, .. } | LSpec::ActOnly { act } | LSpec::Affine3 { act, .. } => *act,
            LSpec::Gain { .. } => Act::None,
        }
    }
    pub fn is_user_defined(&self) -> bool {
        !matches!(self, LSpec::Dense { .. } | LSpec::Conv { .. })
    }
}

#[derive(Clone, Debug)]
pub struct NetSpec {
    pub layers: Vec<LSpec>,
    /// input dimensions including the batch dimensions (if any)
    pub in_dims: Vec<usize>,
    pub ce: bool,
    pub lr: f64,
}

impl NetSpec {
    pub fn describe(&self) -> String {
        format!("layers={:?} input={:?} cost={} lr={}", self.layers, self.in_dims, if self.ce { "cross_entropy" } else { "mse" }, self.lr)
    }
    pub fn is_conv(&self) -> bool {
        matches!(self.layers[0], LSpec::Conv { .. })
    }
    pub fn param_dims(&self) -> Vec<Vec<usize>> {
        let mut v = vec![];
        for l in &self.layers {
            match l {
                LSpec::Dense { inp, out, .. } => {
                    v.push(vec![*out, *inp]);
                    v.push(vec![*out]);
                }
                LSpec::Conv { filters, .. } => {
                    v.push(vec![filters.0, filters.1, filters.2, filters.3]);
                    v.push(vec![filters.0, 1, 1]);
                }
                LSpec::ActOnly { .. } => {}
                LSpec::Gain { n } => v.push(vec![*n]),
                LSpec::Affine3 { inp, out, .. } => {
                    v.push(vec![*out, *inp]);
                    v.push(vec![*out]);
                    v.push(vec![*out]);
                }
            }
        }
        v
    }
    /// index of the first parameter of every layer in the flat parameter list
    pub fn param_offsets(&self) -> Vec<usize> {
        let mut o = vec![];
        let mut k = 0;
        for l in &self.layers {
            o.push(k);
            k += l.n_params();
        }
        o
    }
}

pub fn act_ref<S: Sc>(a: Act, x: T<S>) -> T<S> {
    match a {
        Act::None => x,
        Act::Relu => x.relu(),
        Act::Sigmoid => x.sigmoid(),
        Act::Softmax => x.softmax(),
    }
}

/// documented layer formulas: dense = act(x W^T + b); conv = act(conv(x, filters, stride) + b), one bias per filter
pub fn layer_ref<S: Sc>(l: &LSpec, w: &T<S>, b: &T<S>, x: &T<S>) -> Option<(T<S>, T<S>)> {
    layer_ref_n(l, &[w.clone(), b.clone()], x)
}
/// the same for any layer kind: `ps` are that layer's parameters in `parameters()` order
pub fn layer_ref_n<S: Sc>(l: &LSpec, ps: &[T<S>], x: &T<S>) -> Option<(T<S>, T<S>)> {
    let pre = match l {
        LSpec::Dense { .. } => T::matmul(x, false, &ps[0], true, Some(&ps[1]))?,
        LSpec::Conv { stride, .. } => T::conv(x, &ps[0], stride.0, stride.1)?.zip(&ps[1], |p, q| p + q)?,
        LSpec::ActOnly { .. } => x.clone(),
        LSpec::Gain { .. } => x.zip(&ps[0], |p, q| p * q)?,
        LSpec::Affine3 { .. } => T::matmul(x, false, &ps[0], true, None)?.zip(&ps[1], |p, q| p * q)?.zip(&ps[2], |p, q| p + q)?,
    };
    Some((pre.clone(), act_ref(l.act(), pre)))
}

/// returns (output, any relu pre-activation exactly at the kink)
pub fn forward_ref<S: Sc>(spec: &NetSpec, params: &[T<S>], input: &T<S>) -> Option<(T<S>, bool)> {
    let mut x = input.clone();
    let mut kink = false;
    let offs = spec.param_offsets();
    for (i, l) in spec.layers.iter().enumerate() {
        let (pre, out) = layer_ref_n(l, &params[offs[i]..offs[i] + l.n_params()], &x)?;
        let act = l.act();
        // on (or within rounding distance of) the kink the sub-gradient choice is not determined
        let eps = 10.0 * tau() * pre.max_abs().max(1.0);
        if act == Act::Relu && pre.v.iter().any(|v| v.val().abs() <= eps) {
            kink = true;
        }
        x = out;
    }
    Some((x, kink))
}

/// true when some pre-activation leaves [-100, 100] (single precision: [-20, 20]): beyond that the exponentials of
/// sigmoid / softmax and the quotients of their derivatives leave the range in which every term is representable
/// (section 10, observation O1) - such inputs are outside "in-domain values"
pub fn saturates(spec: &NetSpec, params: &[T<f64>], input: &T<f64>) -> bool {
    // (the single-precision limit in both builds: which cases a check runs must not depend on the float width, or the
    // f32 / f64 metadata logs of C19 no longer line up)
    let lim = 20.0;
    let offs = spec.param_offsets();
    let mut x = input.clone();
    for (i, l) in spec.layers.iter().enumerate() {
        match layer_ref_n(l, &params[offs[i]..offs[i] + l.n_params()], &x) {
            Some((pre, out)) => {
                if !(pre.max_abs() <= lim) {
                    return true;
                }
                x = out;
            }
            None => return true,
        }
    }
    false
}

pub fn cost_ref<S: Sc>(ce: bool, out: &T<S>, target: &T<S>) -> Option<T<S>> {
    if ce {
        T::cross_entropy(out, target)
    } else {
        T::mse(out, target)
    }
}

/// loss and gradient with respect to every parameter element (forward mode, one run per element)
pub fn loss_and_grads(spec: &NetSpec, params: &[T<f64>], input: &T<f64>, target: &T<f64>) -> Option<(f64, Vec<Vec<f64>>, Vec<Vec<f64>>, bool)> {
    loss_and_grads_n(spec, params, input, target, 1)
}
/// the same for the net applied `apps` times to its own output (tied weights)
pub fn forward_ref_n<S: Sc>(spec: &NetSpec, params: &[T<S>], input: &T<S>, apps: usize) -> Option<(T<S>, bool)> {
    let (mut x, mut kink) = forward_ref(spec, params, input)?;
    for _ in 1..apps {
        let (y, k) = forward_ref(spec, params, &x)?;
        x = y;
        kink |= k;
    }
    Some((x, kink))
}
pub fn loss_and_grads_n(spec: &NetSpec, params: &[T<f64>], input: &T<f64>, target: &T<f64>, apps: usize) -> Option<(f64, Vec<Vec<f64>>, Vec<Vec<f64>>, bool)> {
    let (out, kink) = forward_ref_n::<f64>(spec, params, input, apps)?;
    let loss = cost_ref(spec.ce, &out, target)?.sum_all();
    let mut grads = vec![];
    let mut scales = vec![];
    for pi in 0..params.len() {
        let mut g = vec![0.0; params[pi].v.len()];
        let mut sc = vec![0.0; params[pi].v.len()];
        for j in 0..g.len() {
            // forward mode over (value, running error scale): the derivative and the magnitude it is uncertain relative to
            type DV = Dual<VA>;
            let dp: Vec<T<DV>> = params
                .iter()
                .enumerate()
                .map(|(q, p)| {
                    let mut t: T<DV> = T::from_f64(&p.dims, &p.v);
                    if q == pi {
                        t.v[j].d = VA { v: 1.0, s: 0.0 };
                    }
                    t
                })
                .collect();
            let (o, _) = forward_ref_n(spec, &dp, &T::from_f64(&input.dims, &input.v), apps)?;
            let l = cost_ref(spec.ce, &o, &T::from_f64(&target.dims, &target.v))?;
            g[j] = l.v.iter().map(|x| x.d.v).sum();
            sc[j] = l.v.iter().map(|x| x.d.s + x.d.v.abs()).sum();
        }
        grads.push(g);
        scales.push(sc);
    }
    Some((loss, grads, scales, kink))
}

fn quarters(r: &mut Rng, n: usize, lo: i64, hi: i64) -> Vec<f64> {
    (0..n).map(|_| 0.25 * r.int(lo, hi)).collect()
}

pub fn gen_net(r: &mut Rng, big: bool) -> NetSpec {
    let acts = [Act::None, Act::Relu, Act::Sigmoid, Act::Softmax];
    let lr = *r.pick(&[0.0, 0.01, 0.1, 0.5, -0.1]);
    let maxs = if big { 5 } else { 4 };
    if r.chance(1, 3) {
        // one or two convolutional layers
        let d = r.range(1, 2);
        let (fr, fc) = (r.range(1, 2), r.range(1, 2));
        let st = (r.range(1, 2), r.range(1, 2));
        let (h, w) = (fr + r.range(1, 3), fc + r.range(1, 3));
        let c1 = r.range(1, 2);
        let mut layers = vec![LSpec::Conv { filters: (c1, d, fr, fc), stride: st, act: acts[r.below(3)] }];
        if r.chance(1, 2) {
            layers.push(LSpec::Conv { filters: (r.range(1, 2), c1, 1, 1), stride: (1, 1), act: acts[r.below(3)] });
        }
        let in_dims = match r.below(5) {
            0 => vec![d, h, w],
            1 => vec![1, d, h, w],
            4 => vec![2, r.range(1, 2), d, h, w],
            _ => vec![r.range(2, 3), d, h, w],
        };
        NetSpec { layers, in_dims, ce: false, lr }
    } else {
        let n = r.range(1, 3);
        let sizes: Vec<usize> = (0..=n).map(|_| r.range(1, maxs)).collect();
        let ce = r.chance(1, 2);
        let mut layers = vec![];
        // a quarter of the dense stacks mix in layers a user of the library would write (0, 1 or 3 parameter arrays)
        let with_user_layers = r.chance(1, 4);
        for i in 0..n {
            let last = i == n - 1;
            let act = if last && ce { Act::Softmax } else if last { acts[r.below(4)] } else { acts[r.below(3)] };
            if with_user_layers && r.chance(1, 2) {
                layers.push(LSpec::Affine3 { inp: sizes[i], out: sizes[i + 1], act });
            } else {
                layers.push(LSpec::Dense { inp: sizes[i], out: sizes[i + 1], act });
            }
            if with_user_layers && !last {
                match r.below(3) {
                    0 => layers.push(LSpec::Gain { n: sizes[i + 1] }),
                    1 => layers.push(LSpec::ActOnly { act: acts[1 + r.below(2)] }),
                    _ => {}
                }
            }
        }
        if with_user_layers && r.chance(1, 3) {
            layers.insert(0, LSpec::Gain { n: sizes[0] });
        }
        let in_dims = match r.below(6) {
            0 => vec![sizes[0]],
            1 => vec![1, sizes[0]],
            4 => vec![2, r.range(1, 3), sizes[0]],
            5 => vec![2, r.range(1, 2), r.range(1, 2), sizes[0]],
            // (one batched stack in four sees a batch of 5..13 rows)
            _ => vec![if r.chance(1, 4) { r.range(5, 13) } else { r.range(2, 4) }, sizes[0]],
        };
        NetSpec { layers, in_dims, ce, lr }
    }
}

/// one or two wide dense layers on a batch large enough for activations of 1024+ values (for the monitors that need no
/// reference gradients: release of memory, immutability)
pub fn gen_wide_net(r: &mut Rng) -> NetSpec {
    let acts = [Act::None, Act::Relu, Act::Sigmoid, Act::Softmax];
    let (inp, hid) = (r.range(4, 12), *r.pick(&[48usize, 64, 80]));
    let batch = r.range(16, 24);
    let mut layers = vec![LSpec::Dense { inp, out: hid, act: acts[1 + r.below(3)] }];
    let ce = r.chance(1, 2);
    if r.chance(1, 2) {
        layers.push(LSpec::Dense { inp: hid, out: r.range(2, 6), act: if ce { Act::Softmax } else { acts[r.below(4)] } });
    } else if ce {
        layers[0] = LSpec::Dense { inp, out: hid, act: Act::Softmax };
    }
    NetSpec { layers, in_dims: vec![batch, inp], ce, lr: 0.01 }
}

pub fn gen_params(r: &mut Rng, spec: &NetSpec, ints: bool) -> Vec<T<f64>> {
    spec.param_dims()
        .iter()
        .map(|d| {
            let n = numel(d);
            let v = if ints { (0..n).map(|_| r.int(-2, 2)).collect() } else { quarters(r, n, -6, 6) };
            T::from_f64(d, &v)
        })
        .collect()
}

pub fn gen_input(r: &mut Rng, spec: &NetSpec, ints: bool) -> T<f64> {
    let n = numel(&spec.in_dims);
    let v = if ints { (0..n).map(|_| r.int(-2, 2)).collect() } else { quarters(r, n, -8, 8) };
    T::from_f64(&spec.in_dims, &v)
}

pub fn gen_target(r: &mut Rng, dims: &[usize]) -> T<f64> {
    T::from_f64(dims, &quarters(r, numel(dims), 0, 4))
}

// ---------------------------------------------------------------------------------------------------------
// boundary spies

#[derive(Clone, Debug)]
pub struct Obs {
    pub dims: Vec<usize>,
    pub vals: Vec<f64>,
}
impl Obs {
    pub fn of(a: &Array) -> Obs {
        Obs { dims: a.dimensions().to_vec(), vals: vals(a) }
    }
    pub fn t(&self) -> T<f64> {
        T { dims: self.dims.clone(), v: self.vals.clone() }
    }
}

#[derive(Clone, Debug)]
pub struct ParamBefore {
    pub value: Obs,
    pub grad: Option<Obs>,
    pub tracked: bool,
}
#[derive(Clone, Debug)]
pub struct ParamAfter {
    pub value: Obs,
    pub has_grad: bool,
    pub tracked: bool,
}

#[derive(Clone, Debug)]
pub enum Ev {
    Forward { layer: usize, input: Obs, params: Vec<Obs>, output: Obs, output_tracked: bool },
    Update { before: Vec<ParamBefore>, after: Vec<ParamAfter> },
}

pub type Events = Rc<RefCell<Vec<Ev>>>;
/// registry of handles kept alive on purpose, each with the bit-exact snapshot taken when it was registered
pub struct KeptHandle {
    pub a: Array,
    pub kind: &'static str,
    pub dims: Vec<usize>,
    pub bits: Vec<u64>,
    pub iteration: usize,
}
pub type Kept = Rc<RefCell<Vec<KeptHandle>>>;
pub fn keep(k: &Kept, a: &Array, kind: &'static str) {
    let it = k.borrow().iter().filter(|h| h.kind == "training-input").count();
    k.borrow_mut().push(KeptHandle { a: a.clone(), kind, dims: a.dimensions().to_vec(), bits: bits(a), iteration: it });
}

/// Implements `Layer` around a real layer; records copies of what crosses the boundary (never handles, unless a
/// `kept` registry is supplied on purpose - the C08 snapshot monitor).
pub struct SpyLayer<L: Layer> {
    pub id: usize,
    pub inner: RefCell<L>,
    pub events: Events,
    pub kept: Option<Kept>,
}
impl<L: Layer> Layer for SpyLayer<L> {
    fn forward(&self, input: Array) -> Array {
        let params: Vec<Obs> = self.inner.borrow_mut().parameters().iter().map(|p| Obs::of(p)).collect();
        let in_obs = Obs::of(&input);
        if let Some(k) = &self.kept {
            keep(k, &input, "layer-input");
            for p in self.inner.borrow_mut().parameters() {
                keep(k, p, "parameter-before-update");
                if let Some(g) = p.gradient().as_ref() {
                    keep(k, g, "parameter-gradient");
                }
            }
        }
        let output = self.inner.borrow().forward(input);
        if let Some(k) = &self.kept {
            keep(k, &output, "layer-output");
        }
        self.events.borrow_mut().push(Ev::Forward { layer: self.id, input: in_obs, params, output: Obs::of(&output), output_tracked: is_tracked(&output) });
        output
    }
    fn parameters(&mut self) -> Vec<&mut Array> {
        self.inner.get_mut().parameters()
    }
}

pub struct SpyOptimizer<O: Optimizer> {
    pub inner: O,
    pub events: Events,
}
impl<O: Optimizer> Optimizer for SpyOptimizer<O> {
    fn update(&self, mut parameters: Vec<&mut Array>) {
        let before = parameters
            .iter()
            .map(|p| ParamBefore { value: Obs::of(p), grad: p.gradient().as_ref().map(Obs::of), tracked: is_tracked(p) })
            .collect();
        self.inner.update(parameters.iter_mut().map(|p| &mut **p).collect());
        let after: Vec<ParamAfter> = parameters.iter().map(|p| ParamAfter { value: Obs::of(p), has_grad: p.gradient().is_some(), tracked: is_tracked(p) }).collect();
        // how many optimizer calls an iteration is split into is not pinned by any property (one call with every
        // parameter, or one per layer): consecutive calls are one logical update of the concatenated list
        let mut ev = self.events.borrow_mut();
        let before: Vec<ParamBefore> = before;
        if let Some(Ev::Update { before: b0, after: a0 }) = ev.last_mut() {
            b0.extend(before);
            a0.extend(after);
            return;
        }
        ev.push(Ev::Update { before, after });
    }
}

fn fixed_initializer() -> Initializer {
    // deterministic placeholder values; every parameter is overwritten through Layer::parameters() afterwards
    Box::new(|_| 0.5)
}

pub struct Acts {
    pub relu: Activation,
    pub sigmoid: Activation,
    pub softmax: Activation,
}
impl Acts {
    pub fn new() -> Acts {
        Acts { relu: activation::relu(), sigmoid: activation::sigmoid(), softmax: activation::softmax() }
    }
    pub fn get(&self, a: Act) -> Option<&Activation> {
        match a {
            Act::None => None,
            Act::Relu => Some(&self.relu),
            Act::Sigmoid => Some(&self.sigmoid),
            Act::Softmax => Some(&self.softmax),
        }
    }
}
fn owned_act(a: Act) -> Option<Activation> {
    match a {
        Act::None => None,
        Act::Relu => Some(activation::relu()),
        Act::Sigmoid => Some(activation::sigmoid()),
        Act::Softmax => Some(activation::softmax()),
    }
}

pub enum RealLayer<'a> {
    D(Dense<'a>),
    C(Conv),
    U(UserLayer),
}
impl<'a> Layer for RealLayer<'a> {
    fn forward(&self, input: Array) -> Array {
        match self {
            RealLayer::D(d) => d.forward(input),
            RealLayer::C(c) => c.forward(input),
            RealLayer::U(u) => u.forward(input),
        }
    }
    fn parameters(&mut self) -> Vec<&mut Array> {
        match self {
            RealLayer::D(d) => d.parameters(),
            RealLayer::C(c) => c.parameters(),
            RealLayer::U(u) => u.parameters(),
        }
    }
}

/// A layer as a user of the library would write one: the Layer trait implemented with library operators.
pub struct UserLayer {
    pub kind: LSpec,
    pub params: Vec<Array>,
}
impl Layer for UserLayer {
    fn forward(&self, x: Array) -> Array {
        let pre = match &self.kind {
            LSpec::Gain { .. } => &x * &self.params[0],
            LSpec::Affine3 { .. } => {
                let y = Array::matmul((&x, false), (&self.params[0], true), None);
                &(&y * &self.params[1]) + &self.params[2]
            }
            _ => x,
        };
        match self.kind.act() {
            Act::None => pre,
            Act::Relu => pre.relu(),
            Act::Sigmoid => pre.sigmoid(),
            Act::Softmax => pre.softmax(),
        }
    }
    fn parameters(&mut self) -> Vec<&mut Array> {
        self.params.iter_mut().collect()
    }
}

/// build the real layers of a spec and set their parameters (through `Layer::parameters()`)
pub fn build_layers<'a>(spec: &NetSpec, acts: &'a Acts, params: &[T<f64>]) -> Vec<RealLayer<'a>> {
    let init = fixed_initializer();
    let mut out = vec![];
    let offs = spec.param_offsets();
    let pdims = spec.param_dims();
    for (i, l) in spec.layers.iter().enumerate() {
        let mut layer = match l {
            LSpec::Dense { inp, out, act } => RealLayer::D(Dense::new(*inp, *out, &init, acts.get(*act))),
            LSpec::Conv { filters, stride, act } => RealLayer::C(Conv::new(*filters, *stride, &init, owned_act(*act))),
            _ => RealLayer::U(UserLayer { kind: l.clone(), params: (0..l.n_params()).map(|j| Array::from(pdims[offs[i] + j].clone())).collect() }),
        };
        {
            let ps = layer.parameters();
            assert_eq!(ps.len(), l.n_params(), "number of parameter arrays of the layer");
            for (j, p) in ps.into_iter().enumerate() {
                let t = &params[offs[i] + j];
                assert_eq!(p.dimensions(), &t.dims[..], "documented parameter dimensions");
                *p = arr_t(t).tracked();
            }
        }
        out.push(layer);
    }
    out
}

pub struct Iteration {
    pub input: T<f64>,
    pub target: T<f64>,
    /// run backward twice before the update (must give the sum, by C10)
    pub double_backward: bool,
    /// a forward call on another batch whose result is abandoned, made right before this iteration's own forward
    pub abandoned_forward: Option<T<f64>>,
    /// a forward call on another batch (say, a validation batch) made between this iteration's backward and update
    pub late_forward: Option<T<f64>>,
    /// `backward(target)` once more AFTER the update, on the forward pass of this iteration (the graph of the replaced
    /// parameters): returns this iteration's loss again and leaves the new parameters alone
    pub late_backward: bool,
    /// the model object is dropped after this iteration's backward and a new one (same layers) makes the update call
    pub rebuild_before_update: bool,
    /// the model is applied to its own output (`forward(forward(x))`, tied weights) before the cost is taken
    pub twice: bool,
    /// before this iteration the model object is dropped, the layers are edited through Layer::parameters() and a new
    /// Model is built over the same layers
    pub rebuild: Option<Rebuild>,
}
#[derive(Clone, Debug)]
pub struct Rebuild {
    /// per parameter: Some(true) stop_tracking(), Some(false) start_tracking(), None leave
    pub freeze: Vec<Option<bool>>,
    /// parameters replaced by a new tracked array of the same dimensions
    pub edits: Vec<(usize, T<f64>)>,
    /// parameters restored from a checkpoint: clones of the parameter handles taken before the first iteration
    pub restores: Vec<usize>,
}
impl Iteration {
    pub fn plain(input: T<f64>, target: T<f64>, double_backward: bool) -> Iteration {
        Iteration { input, target, double_backward, abandoned_forward: None, late_forward: None, late_backward: false, rebuild_before_update: false, twice: false, rebuild: None }
    }
}

pub struct TrainRun {
    /// (iteration, value returned by a backward call made after that iteration's update)
    pub late_losses: Vec<(usize, f64)>,
    pub events: Vec<Ev>,
    pub losses: Vec<f64>,
    pub outputs: Vec<Obs>,
    pub output_tracked: Vec<bool>,
    /// ledger readings right after each update (only meaningful without spies; here informational)
    pub kept: Vec<KeptHandle>,
}

/// Run the forward / backward / update loop of a real `Model` built from spied layers and a spied optimizer.
/// The caller's data set: a batch that comes round again is the same array handed in again (`x.clone()`). Only batches
/// that WILL come again are held, and only until their last use - a holder of its own would change reference counts the
/// library may look at (section 10: a monitor that keeps handles changes what it observes).
#[derive(Default)]
pub struct Dataset {
    /// (batch, uses still to come)
    plan: Vec<(T<f64>, usize)>,
    held: Vec<(T<f64>, Array)>,
}
fn same_batch(a: &T<f64>, b: &T<f64>) -> bool {
    a.dims == b.dims && a.v.iter().map(|x| x.to_bits()).eq(b.v.iter().map(|x| x.to_bits()))
}
impl Dataset {
    pub fn for_iterations(iterations: &[Iteration]) -> Dataset {
        let mut d = Dataset::default();
        for it in iterations {
            for t in it.abandoned_forward.iter().chain(std::iter::once(&it.input)).chain(std::iter::once(&it.target)).chain(it.late_forward.iter()) {
                match d.plan.iter_mut().find(|(h, _)| same_batch(h, t)) {
                    Some((_, n)) => *n += 1,
                    None => d.plan.push((t.clone(), 1)),
                }
            }
        }
        d
    }
    pub fn array(&mut self, t: &T<f64>) -> Array {
        let left = match self.plan.iter_mut().find(|(h, _)| same_batch(h, t)) {
            Some((_, n)) => {
                *n = n.saturating_sub(1);
                *n
            }
            None => 0,
        };
        if let Some(i) = self.held.iter().position(|(h, _)| same_batch(h, t)) {
            return if left == 0 { self.held.swap_remove(i).1 } else { self.held[i].1.clone() };
        }
        let a = arr_t(t);
        if left > 0 {
            self.held.push((t.clone(), a.clone()));
        }
        a
    }
}

pub fn train_spied(spec: &NetSpec, params: &[T<f64>], iterations: &[Iteration], keep_handles: bool) -> Result<TrainRun, String> {
    let events: Events = Rc::new(RefCell::new(vec![]));
    let late_losses: Rc<RefCell<Vec<(usize, f64)>>> = Rc::new(RefCell::new(vec![]));
    let kept: Kept = Rc::new(RefCell::new(vec![]));
    let res = guard(|| {
        let acts = Acts::new();
        let layers = build_layers(spec, &acts, params);
        let mut spies: Vec<SpyLayer<RealLayer>> = layers
            .into_iter()
            .enumerate()
            .map(|(i, l)| SpyLayer { id: i, inner: RefCell::new(l), events: events.clone(), kept: if keep_handles { Some(kept.clone()) } else { None } })
            .collect();
        let opt = SpyOptimizer { inner: GradientDescent::new(spec.lr as Float), events: events.clone() };
        let costf: CostFunction = if spec.ce { cost::cross_entropy() } else { cost::mse() };
        let mut losses = vec![];
        let mut outputs = vec![];
        let mut output_tracked = vec![];
        // a checkpoint (handle clones, as `p.clone()` in user code) is kept only by histories that restore from it
        let wants_checkpoint = iterations.iter().any(|it| it.rebuild.as_ref().map(|rb| !rb.restores.is_empty()).unwrap_or(false));
        let checkpoint: Vec<Array> = if wants_checkpoint { spies.iter_mut().flat_map(|s| s.parameters()).map(|p| (*p).clone()).collect() } else { vec![] };
        let mut dataset = Dataset::for_iterations(iterations);
        let mut i = 0;
        while i < iterations.len() {
            if let Some(rb) = &iterations[i].rebuild {
                let mut k = 0;
                for s in spies.iter_mut() {
                    for p in s.parameters() {
                        match rb.freeze.get(k).copied().flatten() {
                            Some(true) => {
                                p.stop_tracking();
                            }
                            Some(false) => {
                                p.start_tracking();
                            }
                            None => {}
                        }
                        if let Some((_, t)) = rb.edits.iter().find(|(j, _)| *j == k) {
                            *p = arr_t(t).tracked();
                        }
                        if rb.restores.contains(&k) {
                            *p = checkpoint[k].clone();
                        }
                        k += 1;
                    }
                }
            }
            let refs: Vec<&mut dyn Layer> = spies.iter_mut().map(|s| s as &mut dyn Layer).collect();
            let mut model = Model::new(refs, &opt, &costf);
            loop {
                let it = &iterations[i];
                if let Some(x) = &it.abandoned_forward {
                    // the spies' record of the abandoned call is not part of the iteration
                    let n0 = events.borrow().len();
                    let _ = model.forward(dataset.array(x));
                    events.borrow_mut().truncate(n0);
                }
                // a batch that comes round again is the same array handed in again (`x.clone()`), not a rebuilt one
                let input = dataset.array(&it.input);
                let target = dataset.array(&it.target);
                if keep_handles {
                    keep(&kept, &input, "training-input");
                    keep(&kept, &target, "training-target");
                }
                let out = model.forward(input);
                let out = if it.twice { model.forward(out) } else { out };
                outputs.push(Obs::of(&out));
                output_tracked.push(is_tracked(&out));
                if keep_handles {
                    keep(&kept, &out, "model-output");
                }
                let loss = model.backward(target);
                if it.double_backward {
                    let _ = model.backward(arr_t(&it.target));
                }
                losses.push(loss as f64);
                if let Some(x) = &it.late_forward {
                    let n0 = events.borrow().len();
                    let _ = model.forward(dataset.array(x));
                    events.borrow_mut().truncate(n0);
                }
                if it.rebuild_before_update {
                    // (say, to change the learning rate after looking at the loss): the gradients live on the parameters,
                    // not in the model object
                    drop(model);
                    {
                        let refs2: Vec<&mut dyn Layer> = spies.iter_mut().map(|s| s as &mut dyn Layer).collect();
                        let mut m2 = Model::new(refs2, &opt, &costf);
                        m2.update();
                    }
                    i += 1;
                    break;
                }
                model.update();
                if it.late_backward && it.late_forward.is_none() {
                    let l2 = model.backward(arr_t(&it.target));
                    late_losses.borrow_mut().push((i, l2 as f64));
                }
                i += 1;
                if i >= iterations.len() || iterations[i].rebuild.is_some() {
                    break;
                }
            }
        }
        (losses, outputs, output_tracked)
    });
    let (losses, outputs, output_tracked) = res?;
    let ev = events.borrow().clone();
    let k = std::mem::take(&mut *kept.borrow_mut());
    let ll = late_losses.borrow().clone();
    Ok(TrainRun { late_losses: ll, events: ev, losses, outputs, output_tracked, kept: k })
}

pub struct TrainLedger {
    pub before_model: (isize, isize),
    pub after_model: (isize, isize),
    pub boundaries: Vec<(isize, isize)>,
    pub input_probes: u64,
    pub input_probe_failures: Vec<(usize, String)>,
}

/// Plain (unspied) training loop bracketed by the allocation ledger; the previous iteration's input is probed for
/// sole ownership after the next forward pass.
/// `persistent`: one Model object for the whole loop (what outlives an iteration inside it is probed through inputs and
/// targets; the footprint at a boundary includes the graph the model still holds, whose allocation pattern may
/// legitimately depend on the data). Otherwise a new Model per iteration, dropped before the boundary reading: then only
/// parameters and the caller's own arrays are alive and consecutive readings must be identical.
pub fn train_ledger(spec: &NetSpec, iters: usize, seed: u64, persistent: bool) -> TrainLedger {
    let mut boundaries: Vec<(isize, isize)> = Vec::with_capacity(iters + 2);
    let mut failures: Vec<(usize, String)> = Vec::with_capacity(iters + 2);
    let mut probes = 0u64;
    let mut measured = ((0, 0), (0, 0));
    // two executions: the first one warms up lazily initialised state
    for round in 0..2 {
        boundaries.clear();
        failures.clear();
        probes = 0;
        let mut r = Rng::new(seed);
        let before = ledger::live();
        {
            let params = gen_params(&mut r, spec, false);
            let acts = Acts::new();
            let mut layers = build_layers(spec, &acts, &params);
            drop(params);
            let opt = GradientDescent::new(spec.lr as Float);
            let costf: CostFunction = if spec.ce { cost::cross_entropy() } else { cost::mse() };
            let mut prev: Option<(Array, Array)> = None;
            let mut probe = |what: &str, it: usize, a: Array, failures: &mut Vec<(usize, String)>| {
                probes += 1;
                if let Err(m) = guard(move || {
                    let _v: Vec<Float> = Vec::from(a);
                }) {
                    failures.push((it, format!("{}: {}", what, m)));
                }
            };
            if !persistent {
                for it in 0..iters {
                    let input = arr_t(&gen_input(&mut r, spec, false));
                    let mine = input.clone();
                    let my_target;
                    {
                        let refs: Vec<&mut dyn Layer> = layers.iter_mut().map(|s| s as &mut dyn Layer).collect();
                        let mut model = Model::new(refs, &opt, &costf);
                        let out = model.forward(input);
                        let target = arr_t(&gen_target(&mut r, out.dimensions()));
                        my_target = target.clone();
                        drop(out);
                        let _loss = model.backward(target);
                        let _ = r.chance(1, 4);
                        model.update();
                    }
                    // the model of this iteration is gone: its input and target own their buffers again, and apart from
                    // the (replaced) parameters nothing of the iteration is left
                    probe("input of the iteration, its model dropped", it, mine, &mut failures);
                    probe("target of the iteration, its model dropped", it, my_target, &mut failures);
                    boundaries.push(ledger::live());
                }
            }
            let refs: Vec<&mut dyn Layer> = layers.iter_mut().map(|s| s as &mut dyn Layer).collect();
            let mut model = Model::new(refs, &opt, &costf);
            for it in 0..(if persistent { iters } else { 0 }) {
                let input = arr_t(&gen_input(&mut r, spec, false));
                let mine = input.clone();
                let out = model.forward(input);
                // the model has moved on: nothing of the previous iteration may still reference its input or its target
                if let Some((pi, pt)) = prev.take() {
                    probe("input of the previous iteration", it - 1, pi, &mut failures);
                    probe("target of the previous iteration", it - 1, pt, &mut failures);
                }
                let target = arr_t(&gen_target(&mut r, out.dimensions()));
                let my_target = target.clone();
                drop(out);
                let _loss = model.backward(target);
                // an evaluation-only iteration (loss wanted, no step) now and then
                let evaluation_only = r.chance(1, 4);
                if !evaluation_only {
                    model.update();
                }
                prev = Some((mine, my_target));
            }
            // the model is gone; layers, optimizer and cost closure are still in scope (user code keeps them)
            drop(model);
            if let Some((pi, pt)) = prev.take() {
                probe("input of the last iteration, model dropped", iters - 1, pi, &mut failures);
                probe("target of the last iteration, model dropped", iters - 1, pt, &mut failures);
            }
            // inference after training: every parameter frozen, plain inputs fed through the layers directly, outputs
            // dropped - each input owns its buffer again, the previous one and the last one
            for l in layers.iter_mut() {
                for p in l.parameters() {
                    p.stop_tracking();
                }
            }
            let mut prev_inf: Option<Array> = None;
            for k in 0..3 {
                let x = arr_t(&gen_input(&mut r, spec, false));
                let mine = x.clone();
                let mut y = x;
                for l in layers.iter() {
                    y = l.forward(y);
                }
                drop(y);
                if let Some(p) = prev_inf.take() {
                    probe("input of the previous inference call (all parameters frozen)", iters + k - 1, p, &mut failures);
                }
                prev_inf = Some(mine);
            }
            if let Some(p) = prev_inf.take() {
                probe("input of the last inference call (all parameters frozen)", iters + 2, p, &mut failures);
            }
        }
        let after = ledger::live();
        if round == 1 {
            measured = (before, after);
        }
    }
    TrainLedger { before_model: measured.0, after_model: measured.1, boundaries, input_probes: probes, input_probe_failures: failures }
}
