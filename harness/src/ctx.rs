//! Per-worker monitor context: counters, histograms, samples, distinct-case hashes, violations.

use crate::rng::hash_str;
use std::cell::RefCell;
use std::collections::{BTreeMap, BTreeSet};
use std::panic;

#[derive(Clone, Copy, Debug, PartialEq, Eq)]
pub enum Tier {
    Quick,
    Thorough,
}
impl Tier {
    pub fn name(self) -> &'static str {
        match self {
            Tier::Quick => "quick",
            Tier::Thorough => "thorough",
        }
    }
    pub fn parse(s: &str) -> Option<Tier> {
        match s {
            "quick" => Some(Tier::Quick),
            "thorough" => Some(Tier::Thorough),
            _ => None,
        }
    }
    /// pick a count by tier
    pub fn n(self, quick: u64, thorough: u64) -> u64 {
        match self {
            Tier::Quick => quick,
            Tier::Thorough => thorough,
        }
    }
}

#[derive(Clone, Debug)]
pub struct Violation {
    pub sig: String,
    pub family: String,
    pub k: u64,
    pub detail: String,
}

pub struct Ctx {
    pub prop: String,
    pub tier: Tier,
    pub seed: u64,
    pub evaluations: u64,
    pub counters: BTreeMap<String, u64>,
    pub hists: BTreeMap<String, BTreeMap<String, u64>>,
    pub fmax: BTreeMap<String, f64>,
    pub samples: Vec<String>,
    pub sample_keys: BTreeSet<String>,
    pub distinct: BTreeSet<u64>,
    pub violations: Vec<Violation>,
    pub violation_count: u64,
    pub sig_counts: BTreeMap<String, u64>,
    pub harness_errors: Vec<String>,
    pub family: String,
    pub k: u64,
    pub verbose: bool,
    /// metadata log (C19): one line per case, compared between the f64 and the f32 build
    pub meta: Option<Vec<String>>,
    pub max_samples: usize,
    /// prepended to every violation signature (C19 runs the C01-C07 monitors under its own property id)
    pub sig_prefix: String,
}

impl Ctx {
    pub fn new(prop: &str, tier: Tier, seed: u64) -> Ctx {
        Ctx {
            prop: prop.to_string(),
            tier,
            seed,
            evaluations: 0,
            counters: BTreeMap::new(),
            hists: BTreeMap::new(),
            fmax: BTreeMap::new(),
            samples: vec![],
            sample_keys: BTreeSet::new(),
            distinct: BTreeSet::new(),
            violations: vec![],
            violation_count: 0,
            sig_counts: BTreeMap::new(),
            harness_errors: vec![],
            family: String::new(),
            k: 0,
            verbose: false,
            meta: None,
            max_samples: 6,
            sig_prefix: String::new(),
        }
    }
    pub fn count(&mut self, name: &str, n: u64) {
        *self.counters.entry(name.to_string()).or_insert(0) += n;
    }
    pub fn hist(&mut self, name: &str, key: &str) {
        *self.hists.entry(name.to_string()).or_default().entry(key.to_string()).or_insert(0) += 1;
    }
    pub fn hist_n(&mut self, name: &str, key: &str, n: u64) {
        *self.hists.entry(name.to_string()).or_default().entry(key.to_string()).or_insert(0) += n;
    }
    pub fn fmax(&mut self, name: &str, x: f64) {
        let e = self.fmax.entry(name.to_string()).or_insert(0.0);
        if x > *e {
            *e = x;
        }
    }
    /// One explored case. `desc` is its structural description (topology, shapes, parameters - not data);
    /// it is hashed for the distinct count when the case is non-trivial by the check's rule.
    pub fn case(&mut self, desc: &str, nontrivial: bool) {
        self.evaluations += 1;
        if nontrivial {
            self.distinct.insert(hash_str(desc));
        }
    }
    /// Keep a written-out sample; at most one per `key` (so that samples show different kinds of cases).
    pub fn sample(&mut self, key: &str, text: impl FnOnce() -> String) {
        if self.samples.len() < self.max_samples && !self.sample_keys.contains(key) {
            self.sample_keys.insert(key.to_string());
            let t = text();
            self.samples.push(format!("[{} #{}] {}", self.family, self.k, t));
        }
    }
    pub fn violation(&mut self, sig: &str, detail: String) {
        let prefixed;
        let sig = if self.sig_prefix.is_empty() {
            sig
        } else {
            prefixed = format!("{}{}", self.sig_prefix, sig);
            &prefixed
        };
        self.violation_count += 1;
        *self.sig_counts.entry(sig.to_string()).or_insert(0) += 1;
        let per_sig = self.violations.iter().filter(|v| v.sig == sig).count();
        if self.verbose {
            eprintln!("  violation sig={} detail={}", sig, detail);
        }
        if per_sig < 3 && self.violations.len() < 200 {
            self.violations.push(Violation { sig: sig.to_string(), family: self.family.clone(), k: self.k, detail });
        }
    }
    pub fn meta(&mut self, line: impl FnOnce() -> String) {
        if self.meta.is_some() {
            let l = format!("{}#{} {}", self.family, self.k, line());
            self.meta.as_mut().unwrap().push(l);
        }
    }
}

thread_local! {
    static LAST_PANIC: RefCell<String> = RefCell::new(String::new());
}

pub fn install_panic_hook() {
    panic::set_hook(Box::new(|info| {
        let msg = if let Some(s) = info.payload().downcast_ref::<&str>() {
            s.to_string()
        } else if let Some(s) = info.payload().downcast_ref::<String>() {
            s.clone()
        } else {
            "<non-string panic>".to_string()
        };
        let loc = info.location().map(|l| format!("{}:{}", l.file(), l.line())).unwrap_or_default();
        LAST_PANIC.with(|p| *p.borrow_mut() = format!("{} @ {}", msg, loc));
    }));
}

/// Run library code; an unwinding panic is returned as Err(message @ location).
pub fn guard<R>(f: impl FnOnce() -> R) -> Result<R, String> {
    match panic::catch_unwind(panic::AssertUnwindSafe(f)) {
        Ok(r) => Ok(r),
        Err(_) => Err(LAST_PANIC.with(|p| p.borrow().clone())),
    }
}

/// short class of a panic message for signatures (strip numbers)
pub fn panic_class(msg: &str) -> String {
    let head: String = msg.split(" @ ").next().unwrap_or("").to_string();
    let where_: String = msg.split(" @ ").nth(1).unwrap_or("").to_string();
    let file = where_.rsplit('/').next().unwrap_or("").split(':').next().unwrap_or("");
    let mut cls = String::new();
    let mut last_digit = false;
    for c in head.chars() {
        if c.is_ascii_digit() {
            if !last_digit {
                cls.push('N');
            }
            last_digit = true;
        } else {
            cls.push(c);
            last_digit = false;
        }
    }
    let cls: String = cls.trim().chars().take(44).collect();
    format!("{}@{}", cls.trim(), file)
}

pub fn escape(s: &str) -> String {
    s.replace('\\', "\\\\").replace('\n', "\\n").replace('\t', "\\t")
}
pub fn unescape(s: &str) -> String {
    let mut o = String::new();
    let mut it = s.chars();
    while let Some(c) = it.next() {
        if c == '\\' {
            match it.next() {
                Some('n') => o.push('\n'),
                Some('t') => o.push('\t'),
                Some('\\') => o.push('\\'),
                Some(x) => {
                    o.push('\\');
                    o.push(x)
                }
                None => o.push('\\'),
            }
        } else {
            o.push(c);
        }
    }
    o
}

impl Ctx {
    /// serialise as a shard report
    pub fn to_report(&self) -> String {
        let mut s = String::new();
        s.push_str(&format!("E\t{}\n", self.evaluations));
        s.push_str(&format!("N\t{}\n", self.violation_count));
        for (k, v) in &self.counters {
            s.push_str(&format!("C\t{}\t{}\n", k, v));
        }
        for (h, m) in &self.hists {
            for (k, v) in m {
                s.push_str(&format!("H\t{}\t{}\t{}\n", h, escape(k), v));
            }
        }
        for (k, v) in &self.fmax {
            s.push_str(&format!("F\t{}\t{:e}\n", k, v));
        }
        for x in &self.samples {
            s.push_str(&format!("S\t{}\n", escape(x)));
        }
        for v in &self.violations {
            s.push_str(&format!("V\t{}\t{}\t{}\t{}\n", escape(&v.sig), v.family, v.k, escape(&v.detail)));
        }
        for (sig, n) in &self.sig_counts {
            s.push_str(&format!("G\t{}\t{}\n", escape(sig), n));
        }
        for e in &self.harness_errors {
            s.push_str(&format!("X\t{}\n", escape(e)));
        }
        for d in &self.distinct {
            s.push_str(&format!("D\t{:x}\n", d));
        }
        s
    }
    /// merge a shard report (text) into this context
    pub fn merge_report(&mut self, text: &str) {
        for line in text.lines() {
            let p: Vec<&str> = line.split('\t').collect();
            match p[0] {
                "E" => self.evaluations += p[1].parse::<u64>().unwrap_or(0),
                "N" => self.violation_count += p[1].parse::<u64>().unwrap_or(0),
                "C" => self.count(p[1], p[2].parse().unwrap_or(0)),
                "H" => self.hist_n(p[1], &unescape(p[2]), p[3].parse().unwrap_or(0)),
                "F" => self.fmax(p[1], p[2].parse().unwrap_or(0.0)),
                "S" => {
                    if self.samples.len() < 12 {
                        self.samples.push(unescape(p[1]))
                    }
                }
                "V" => {
                    let v = Violation {
                        sig: unescape(p[1]),
                        family: p[2].to_string(),
                        k: p[3].parse().unwrap_or(0),
                        detail: unescape(p.get(4).unwrap_or(&"")),
                    };
                    self.violations.push(v);
                }
                "G" => *self.sig_counts.entry(unescape(p[1])).or_insert(0) += p[2].parse::<u64>().unwrap_or(0),
                "X" => self.harness_errors.push(unescape(p[1])),
                "D" => {
                    if let Ok(h) = u64::from_str_radix(p[1], 16) {
                        self.distinct.insert(h);
                    }
                }
                _ => {}
            }
        }
    }
}
