//! State monitors (filled in later).
