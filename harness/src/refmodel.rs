//! Independent reference model: dense row-major tensors generic over a scalar.
//!
//! Every operation is written from its textbook definition with explicit multi-indices (unravel + right-aligned
//! broadcast index) - structurally unlike corgi's slice-walking kernel. Scalars: `f64` (values), `Dual<f64>`
//! (forward-mode derivatives), `Sh` / `Dual<Sh>` (magnitude shadow used to certify exact arithmetic).

use std::ops::{Add, Div, Mul, Neg, Sub};

pub trait Sc:
    Copy + Add<Output = Self> + Sub<Output = Self> + Mul<Output = Self> + Div<Output = Self> + Neg<Output = Self>
{
    /// a constant (for the shadow scalar: its magnitude bound, at least 1)
    fn c(x: f64) -> Self;
    /// additive identity (exactly zero, also for the shadow scalar)
    fn zero() -> Self;
    fn val(self) -> f64;
    fn exp(self) -> Self;
    fn ln(self) -> Self;
    fn powf(self, e: f64) -> Self;
    /// the same value treated as a constant (no derivative flows through it)
    fn detach(self) -> Self;
    /// straight-through rectifier of a user operation: the value of relu, the derivative of the identity
    fn ste_relu(self) -> Self {
        if self.val() > 0.0 {
            self
        } else {
            Self::zero()
        }
    }
    /// derivative-free step function of a user operation (1 where positive, 0 elsewhere): a constant
    fn gate(self) -> Self {
        if self.val() > 0.0 {
            Self::c(1.0)
        } else {
            Self::zero()
        }
    }
    /// tangent carried by the result of a derivative-free user operation: none. (The magnitude scalar gives it 1: such a
    /// result may be turned into a gradient-holding array of its own, and the adjoints formed above it must be bounded
    /// like those above any leaf.)
    fn fresh_tangent() -> Self {
        Self::zero()
    }
    /// logistic function (overridable: the magnitude scalar bounds the terms of s * (1 - s), not their difference)
    fn sigmoid(self) -> Self {
        Self::c(1.0) / (Self::c(1.0) + (-self).exp())
    }
}

/// logistic function without overflow in the intermediate exponential
pub fn stable_sigmoid(x: f64) -> f64 {
    if x >= 0.0 {
        1.0 / (1.0 + (-x).exp())
    } else {
        let e = x.exp();
        e / (1.0 + e)
    }
}

impl Sc for f64 {
    fn detach(self) -> f64 {
        self
    }
    fn c(x: f64) -> f64 {
        x
    }
    fn zero() -> f64 {
        0.0
    }
    fn val(self) -> f64 {
        self
    }
    fn exp(self) -> f64 {
        f64::exp(self)
    }
    fn ln(self) -> f64 {
        f64::ln(self)
    }
    fn powf(self, e: f64) -> f64 {
        f64::powf(self, e)
    }
    fn sigmoid(self) -> f64 {
        stable_sigmoid(self)
    }
}

/// Magnitude shadow: an upper bound of |x| that is >= 1 for every datum, so that every partial sum or product
/// any evaluation order can form is bounded by the shadow of the complete expression.
#[derive(Clone, Copy, Debug)]
pub struct Sh(pub f64);
impl Add for Sh {
    type Output = Sh;
    fn add(self, o: Sh) -> Sh {
        Sh(self.0 + o.0)
    }
}
impl Sub for Sh {
    type Output = Sh;
    fn sub(self, o: Sh) -> Sh {
        Sh(self.0 + o.0)
    }
}
impl Mul for Sh {
    type Output = Sh;
    fn mul(self, o: Sh) -> Sh {
        Sh(self.0 * o.0)
    }
}
impl Div for Sh {
    type Output = Sh;
    fn div(self, _o: Sh) -> Sh {
        Sh(f64::INFINITY)
    }
}
impl Neg for Sh {
    type Output = Sh;
    fn neg(self) -> Sh {
        self
    }
}
impl Sc for Sh {
    fn detach(self) -> Sh {
        self
    }
    fn gate(self) -> Sh {
        Sh(1.0)
    }
    fn fresh_tangent() -> Sh {
        Sh(1.0)
    }
    fn c(x: f64) -> Sh {
        Sh(x.abs().max(1.0))
    }
    fn zero() -> Sh {
        Sh(0.0)
    }
    fn val(self) -> f64 {
        self.0
    }
    fn exp(self) -> Sh {
        Sh(f64::INFINITY)
    }
    fn ln(self) -> Sh {
        Sh(f64::INFINITY)
    }
    fn powf(self, _e: f64) -> Sh {
        Sh(f64::INFINITY)
    }
}

#[derive(Clone, Copy, Debug)]
pub struct Dual<B> {
    pub v: B,
    pub d: B,
}
impl<B: Sc> Add for Dual<B> {
    type Output = Dual<B>;
    fn add(self, o: Dual<B>) -> Dual<B> {
        Dual { v: self.v + o.v, d: self.d + o.d }
    }
}
impl<B: Sc> Sub for Dual<B> {
    type Output = Dual<B>;
    fn sub(self, o: Dual<B>) -> Dual<B> {
        Dual { v: self.v - o.v, d: self.d - o.d }
    }
}
impl<B: Sc> Mul for Dual<B> {
    type Output = Dual<B>;
    fn mul(self, o: Dual<B>) -> Dual<B> {
        Dual { v: self.v * o.v, d: self.d * o.v + self.v * o.d }
    }
}
impl<B: Sc> Div for Dual<B> {
    type Output = Dual<B>;
    fn div(self, o: Dual<B>) -> Dual<B> {
        Dual { v: self.v / o.v, d: (self.d * o.v - self.v * o.d) / (o.v * o.v) }
    }
}
impl<B: Sc> Neg for Dual<B> {
    type Output = Dual<B>;
    fn neg(self) -> Dual<B> {
        Dual { v: -self.v, d: -self.d }
    }
}
impl<B: Sc> Sc for Dual<B> {
    fn detach(self) -> Dual<B> {
        Dual { v: self.v, d: B::zero() }
    }
    fn c(x: f64) -> Dual<B> {
        Dual { v: B::c(x), d: B::zero() }
    }
    fn zero() -> Dual<B> {
        Dual { v: B::zero(), d: B::zero() }
    }
    fn val(self) -> f64 {
        self.v.val()
    }
    fn exp(self) -> Dual<B> {
        let e = self.v.exp();
        Dual { v: e, d: e * self.d }
    }
    fn ln(self) -> Dual<B> {
        Dual { v: self.v.ln(), d: self.d / self.v }
    }
    fn powf(self, e: f64) -> Dual<B> {
        Dual {
            v: self.v.powf(e),
            d: if e == 0.0 { B::zero() } else { B::c(e) * self.v.powf(e - 1.0) * self.d },
        }
    }
    fn sigmoid(self) -> Dual<B> {
        // s and s(1-s) from the value (the quotient form loses the derivative to inf/inf beyond the exponent range)
        let sv = self.v.sigmoid();
        Dual { v: sv, d: sv * (B::c(1.0) - sv) * self.d }
    }
    fn ste_relu(self) -> Dual<B> {
        Dual { v: self.v.ste_relu(), d: self.d }
    }
    fn gate(self) -> Dual<B> {
        Dual { v: self.v.gate(), d: B::fresh_tangent() }
    }
}
pub type D64 = Dual<f64>;

/// Value + running error scale: `s` bounds, in units of the unit roundoff, the absolute error a floating-point
/// evaluation of the same expression can accumulate - the rounding of every operation (its own magnitude) plus the
/// errors of its operands carried through it. Data are taken as exact. `Dual<VA>` therefore yields derivatives whose
/// scale includes the terms they are summed from AND the amplified rounding of the forward values they are built from
/// (an adjoint of 3000 times a sum that cancels to 1e-8 is uncertain by 3000 times the rounding of that sum).
#[derive(Clone, Copy, Debug)]
pub struct VA {
    pub v: f64,
    pub s: f64,
}
impl Add for VA {
    type Output = VA;
    fn add(self, o: VA) -> VA {
        let v = self.v + o.v;
        VA { v, s: self.s + o.s + v.abs() }
    }
}
impl Sub for VA {
    type Output = VA;
    fn sub(self, o: VA) -> VA {
        let v = self.v - o.v;
        VA { v, s: self.s + o.s + v.abs() }
    }
}
impl Mul for VA {
    type Output = VA;
    fn mul(self, o: VA) -> VA {
        let v = self.v * o.v;
        VA { v, s: self.s * o.v.abs() + self.v.abs() * o.s + v.abs() }
    }
}
impl Div for VA {
    type Output = VA;
    fn div(self, o: VA) -> VA {
        let v = self.v / o.v;
        VA { v, s: (self.s * o.v.abs() + self.v.abs() * o.s) / (o.v * o.v) + v.abs() }
    }
}
impl Neg for VA {
    type Output = VA;
    fn neg(self) -> VA {
        VA { v: -self.v, s: self.s }
    }
}
impl Sc for VA {
    fn detach(self) -> VA {
        self
    }
    fn c(x: f64) -> VA {
        VA { v: x, s: 0.0 }
    }
    fn zero() -> VA {
        VA { v: 0.0, s: 0.0 }
    }
    fn val(self) -> f64 {
        self.v
    }
    fn exp(self) -> VA {
        let e = self.v.exp();
        VA { v: e, s: e * self.s + e }
    }
    fn ln(self) -> VA {
        let l = self.v.ln();
        VA { v: l, s: self.s / self.v.abs() + l.abs() }
    }
    fn powf(self, e: f64) -> VA {
        let p = self.v.powf(e);
        VA { v: p, s: if e == 0.0 { 0.0 } else { (e * self.v.powf(e - 1.0)).abs() * self.s } + p.abs() }
    }
    fn sigmoid(self) -> VA {
        let sg = stable_sigmoid(self.v);
        VA { v: sg, s: sg * (1.0 - sg) * self.s + sg }
    }
    fn ste_relu(self) -> VA {
        VA { v: if self.v > 0.0 { self.v } else { 0.0 }, s: self.s }
    }
}

/// Value + absolute-path-sum tangent: `a` bounds the sum over all paths of |product of local derivatives|,
/// i.e. the magnitude of the terms a derivative is made of (used to scale tolerances in the smooth class).
#[derive(Clone, Copy, Debug)]
pub struct DA {
    pub v: f64,
    pub a: f64,
}
impl Add for DA {
    type Output = DA;
    fn add(self, o: DA) -> DA {
        DA { v: self.v + o.v, a: self.a + o.a }
    }
}
impl Sub for DA {
    type Output = DA;
    fn sub(self, o: DA) -> DA {
        DA { v: self.v - o.v, a: self.a + o.a }
    }
}
impl Mul for DA {
    type Output = DA;
    fn mul(self, o: DA) -> DA {
        DA { v: self.v * o.v, a: self.a * o.v.abs() + self.v.abs() * o.a }
    }
}
impl Div for DA {
    type Output = DA;
    fn div(self, o: DA) -> DA {
        DA { v: self.v / o.v, a: (self.a * o.v.abs() + self.v.abs() * o.a) / (o.v * o.v) }
    }
}
impl Neg for DA {
    type Output = DA;
    fn neg(self) -> DA {
        DA { v: -self.v, a: self.a }
    }
}
impl Sc for DA {
    fn detach(self) -> DA {
        DA { v: self.v, a: 0.0 }
    }
    fn c(x: f64) -> DA {
        DA { v: x, a: 0.0 }
    }
    fn zero() -> DA {
        DA { v: 0.0, a: 0.0 }
    }
    fn val(self) -> f64 {
        self.v
    }
    fn exp(self) -> DA {
        let e = self.v.exp();
        DA { v: e, a: e * self.a }
    }
    fn ln(self) -> DA {
        DA { v: self.v.ln(), a: self.a / self.v.abs() }
    }
    fn powf(self, e: f64) -> DA {
        DA { v: self.v.powf(e), a: if e == 0.0 { 0.0 } else { (e * self.v.powf(e - 1.0)).abs() * self.a } }
    }
    fn sigmoid(self) -> DA {
        // the derivative s * (1 - s) is made of the terms s * 1 and s * s: for a saturated input their difference is far
        // smaller than either, and its rounding error is relative to the terms
        let s = stable_sigmoid(self.v);
        DA { v: s, a: s * (1.0 + s) * self.a }
    }
    fn ste_relu(self) -> DA {
        DA { v: if self.v > 0.0 { self.v } else { 0.0 }, a: self.a }
    }
}

#[derive(Clone, Debug)]
pub struct T<S> {
    pub dims: Vec<usize>,
    pub v: Vec<S>,
}

pub fn numel(d: &[usize]) -> usize {
    d.iter().product()
}

/// Right-aligned broadcast shape, or None when the pair is not admissible.
pub fn bshape(a: &[usize], b: &[usize]) -> Option<Vec<usize>> {
    let r = a.len().max(b.len());
    let mut out = vec![0; r];
    for i in 0..r {
        let da = if i < r - a.len() { 1 } else { a[i - (r - a.len())] };
        let db = if i < r - b.len() { 1 } else { b[i - (r - b.len())] };
        if da != db && da != 1 && db != 1 {
            return None;
        }
        out[i] = da.max(db);
    }
    Some(out)
}

pub fn unravel(mut f: usize, dims: &[usize]) -> Vec<usize> {
    let mut idx = vec![0; dims.len()];
    for i in (0..dims.len()).rev() {
        idx[i] = f % dims[i];
        f /= dims[i];
    }
    idx
}

pub fn ravel(idx: &[usize], dims: &[usize]) -> usize {
    let mut f = 0;
    for i in 0..dims.len() {
        f = f * dims[i] + idx[i];
    }
    f
}

/// Flat offset in an array of `dims` for a (possibly longer) right-aligned index; unit dimensions read index 0.
pub fn bidx(idx: &[usize], dims: &[usize]) -> usize {
    let off = idx.len() - dims.len();
    let mut f = 0;
    for i in 0..dims.len() {
        let j = if dims[i] == 1 { 0 } else { idx[off + i] };
        f = f * dims[i] + j;
    }
    f
}

impl<S: Sc> T<S> {
    pub fn new(dims: Vec<usize>, v: Vec<S>) -> T<S> {
        assert_eq!(numel(&dims), v.len(), "refmodel: element count");
        T { dims, v }
    }
    pub fn from_f64(dims: &[usize], v: &[f64]) -> T<S> {
        T::new(dims.to_vec(), v.iter().map(|x| S::c(*x)).collect())
    }
    pub fn vals(&self) -> Vec<f64> {
        self.v.iter().map(|x| x.val()).collect()
    }
    pub fn map(&self, f: impl Fn(S) -> S) -> T<S> {
        T { dims: self.dims.clone(), v: self.v.iter().map(|x| f(*x)).collect() }
    }
    pub fn zip(&self, o: &T<S>, f: impl Fn(S, S) -> S) -> Option<T<S>> {
        let od = bshape(&self.dims, &o.dims)?;
        let n = numel(&od);
        let mut v = Vec::with_capacity(n);
        for k in 0..n {
            let id = unravel(k, &od);
            v.push(f(self.v[bidx(&id, &self.dims)], o.v[bidx(&id, &o.dims)]));
        }
        Some(T { dims: od, v })
    }
    /// sum over the last k dimensions -> [lead..., 1]; k = 0 is the identity
    pub fn sum(&self, k: usize) -> T<S> {
        if k == 0 {
            return self.clone();
        }
        let r = self.dims.len();
        let lead: Vec<usize> = self.dims[..r - k].to_vec();
        let inner: usize = self.dims[r - k..].iter().product();
        let outer = numel(&lead);
        let mut v = Vec::new();
        for o in 0..outer {
            let mut s = S::zero();
            for i in 0..inner {
                s = s + self.v[o * inner + i];
            }
            v.push(s);
        }
        let mut dims = lead;
        dims.push(1);
        T { dims, v }
    }
    pub fn sum_all(&self) -> S {
        self.v.iter().fold(S::zero(), |a, b| a + *b)
    }
    pub fn reshape(&self, d: &[usize]) -> Option<T<S>> {
        if numel(d) != self.v.len() || d.iter().any(|x| *x == 0) {
            return None;
        }
        Some(T { dims: d.to_vec(), v: self.v.clone() })
    }
    /// Batched, optionally transposed product plus optional additive term.
    /// rank-1 next to rank>=2 = one-row matrix; two untransposed rank-1 = dot product -> [1].
    /// None = refused (mismatching inner dimension / leading dims not broadcastable / c not broadcastable).
    pub fn matmul(a: &T<S>, ta: bool, b: &T<S>, tb: bool, c: Option<&T<S>>) -> Option<T<S>> {
        let is_dot = a.dims.len() == 1 && b.dims.len() == 1;
        if is_dot {
            if ta || tb {
                return None; // not a listed form
            }
            if a.dims[0] != b.dims[0] {
                return None;
            }
            let mut s = S::zero();
            for i in 0..a.dims[0] {
                s = s + a.v[i] * b.v[i];
            }
            if let Some(c) = c {
                if c.v.len() != 1 {
                    return None;
                }
                s = s + c.v[0];
            }
            return Some(T { dims: vec![1], v: vec![s] });
        }
        let a2 = if a.dims.len() == 1 { a.reshape(&[1, a.dims[0]]).unwrap() } else { a.clone() };
        let b2 = if b.dims.len() == 1 { b.reshape(&[1, b.dims[0]]).unwrap() } else { b.clone() };
        let (ra, rb) = (a2.dims.len(), b2.dims.len());
        let (am, an) = (a2.dims[ra - 2], a2.dims[ra - 1]);
        let (bm, bn) = (b2.dims[rb - 2], b2.dims[rb - 1]);
        let (rows, inner) = if ta { (an, am) } else { (am, an) };
        let (inner_b, cols) = if tb { (bn, bm) } else { (bm, bn) };
        if inner != inner_b {
            return None;
        }
        let lead = bshape(&a2.dims[..ra - 2], &b2.dims[..rb - 2])?;
        let nl = numel(&lead);
        let mut od = lead.clone();
        od.push(rows);
        od.push(cols);
        if let Some(c) = c {
            if c.v.len() != 1 {
                // the term is broadcast over rows and batches only: its last dimension is the column count, and it
                // must broadcast (right aligned) to the output dimensions
                if c.dims.len() > od.len() || *c.dims.last().unwrap() != cols {
                    return None;
                }
                let off = od.len() - c.dims.len();
                for i in 0..c.dims.len() {
                    if c.dims[i] != 1 && c.dims[i] != od[off + i] {
                        return None;
                    }
                }
            }
        }
        let mut v = Vec::with_capacity(nl * rows * cols);
        for l in 0..nl {
            let id = unravel(l, &lead);
            let ao = bidx(&id, &a2.dims[..ra - 2]) * am * an;
            let bo = bidx(&id, &b2.dims[..rb - 2]) * bm * bn;
            for r in 0..rows {
                for j in 0..cols {
                    let mut s = S::zero();
                    for k in 0..inner {
                        let x = if ta { a2.v[ao + k * an + r] } else { a2.v[ao + r * an + k] };
                        let y = if tb { b2.v[bo + j * bn + k] } else { b2.v[bo + k * bn + j] };
                        s = s + x * y;
                    }
                    if let Some(c) = c {
                        let cv = if c.v.len() == 1 {
                            c.v[0]
                        } else {
                            let mut cid = id.clone();
                            cid.push(r);
                            cid.push(j);
                            c.v[bidx(&cid, &c.dims)]
                        };
                        s = s + cv;
                    }
                    v.push(s);
                }
            }
        }
        Some(T { dims: od, v })
    }
    /// Direct sliding-window convolution: image [batch..., d, h, w], filters [cnt, d, fr, fc].
    pub fn conv(img: &T<S>, f: &T<S>, sr: usize, sc: usize) -> Option<T<S>> {
        let r = img.dims.len();
        if r < 3 || f.dims.len() != 4 || sr == 0 || sc == 0 {
            return None;
        }
        let (d, h, w) = (img.dims[r - 3], img.dims[r - 2], img.dims[r - 1]);
        let (cnt, fd, fr, fc) = (f.dims[0], f.dims[1], f.dims[2], f.dims[3]);
        if d != fd || fr > h || fc > w {
            return None;
        }
        let (oh, ow) = ((h - fr) / sr + 1, (w - fc) / sc + 1);
        let batch: Vec<usize> = img.dims[..r - 3].to_vec();
        let nb = numel(&batch);
        let mut v = Vec::new();
        for b in 0..nb {
            for q in 0..cnt {
                for y in 0..oh {
                    for x in 0..ow {
                        let mut s = S::zero();
                        for k in 0..d {
                            for m in 0..fr {
                                for n in 0..fc {
                                    s = s + img.v[((b * d + k) * h + y * sr + m) * w + x * sc + n]
                                        * f.v[((q * d + k) * fr + m) * fc + n];
                                }
                            }
                        }
                        v.push(s);
                    }
                }
            }
        }
        let mut od = batch;
        od.extend(&[cnt, oh, ow]);
        Some(T { dims: od, v })
    }
    pub fn relu(&self) -> T<S> {
        self.map(|x| if x.val() > 0.0 { x } else { S::zero() })
    }
    pub fn sigmoid(&self) -> T<S> {
        self.map(|x| x.sigmoid())
    }
    pub fn softmax(&self) -> T<S> {
        let e = self.map(|x| x.exp());
        let s = e.sum(1);
        e.zip(&s, |a, b| a / b).unwrap()
    }
    /// documented mean-squared-error cost array: (target - output)^2 / element count of output
    pub fn mse(output: &T<S>, target: &T<S>) -> Option<T<S>> {
        let n = S::c(1.0 / output.v.len() as f64);
        Some(target.zip(output, |t, o| t - o)?.map(|d| d * d * n))
    }
    /// documented cross-entropy cost array: -target * ln(output) / leading dimension of output
    pub fn cross_entropy(output: &T<S>, target: &T<S>) -> Option<T<S>> {
        let n = S::c(1.0 / output.dims[0] as f64);
        Some(target.map(|t| -t).zip(&output.map(|o| o.ln()), |a, b| a * b)?.map(|x| x * n))
    }
    pub fn max_abs(&self) -> f64 {
        self.v.iter().fold(0.0f64, |m, x| m.max(x.val().abs()))
    }
}

/// true when any relu input sits exactly on the kink
pub fn has_kink(t: &T<f64>) -> bool {
    t.v.iter().any(|x| *x == 0.0)
}

/// true when any relu input is within `eps` of the kink: rounding in the library's float type may legitimately put
/// it on either side, so the sub-gradient choice is not determined
pub fn near_kink(t: &T<f64>, eps: f64) -> bool {
    t.v.iter().any(|x| x.abs() <= eps)
}
