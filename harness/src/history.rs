//! History executor: a pool of live handles over a growing straight-line program, driven step by step on the real
//! library and on the reference at once. Monitors that observe it: the expected-gradient-slot ledger (C10), the
//! snapshot registry (C08). Steps: build an operation, run a pass from any live node, clear a gradient (both
//! APIs), toggle tracking of a handle, drop a handle, keep a clone / view / fetched gradient, optimizer update.

use crate::cg::*;
use crate::checks::common::reachable_from;
use crate::ctx::guard;
use crate::program::*;
use crate::refmodel::*;
use crate::rng::Rng;
use corgi::array::Array;
use corgi::numbers::Float;
use corgi::optimizer::gd::GradientDescent;
use corgi::optimizer::Optimizer;

#[derive(Clone, Debug)]
pub struct Slot {
    pub v: Vec<f64>,
    pub scale: Vec<f64>,
    /// a relu kink was involved in a contribution: values are not compared until the slot is cleared
    pub tainted: bool,
    pub contributions: usize,
}

pub struct Snap {
    /// a clone kept alive on purpose (an alias the program holds), or None when the snapshot watches one of the
    /// program's own handles in place (`node`) - without adding a reference of the monitor's own to the buffer
    pub a: Option<Array>,
    pub node: usize,
    pub dims: Vec<usize>,
    pub bits: Vec<u64>,
    pub kind: &'static str,
    pub born: usize,
}

#[derive(Clone, Debug)]
pub struct HFailure {
    pub kind: String,
    pub detail: String,
}

pub struct Hist {
    pub st: GenState,
    pub handles: Vec<Option<Array>>,
    pub slot: Vec<Option<Slot>>,
    pub pending_pre: Vec<(usize, bool)>,
    pub log: Vec<String>,
    pub bound: f64,
    pub registry: Vec<Snap>,
    /// the caller's seed arrays: a seed with the values and dimensions of an earlier one is that array handed in again
    /// (`seed.clone()`) when `reuse_seed_handles` is set
    pub seed_pool: Vec<(Vec<usize>, Vec<u64>, Array)>,
    pub reuse_seed_handles: bool,
    pub seeds_handed_in_again: u64,
    /// extra handles the program keeps alive (flag-changed clones)
    pub kept_handles: Vec<Array>,
    pub snapshots_on: bool,
    /// maintain the expected-gradient ledger (C10); off for monitors that do not need reference gradients
    pub track_slots: bool,
    pub failures: Vec<HFailure>,
    pub step: usize,
    pub passes: usize,
    pub pass_kinds: Vec<&'static str>,
    pub slot_checks: u64,
    pub snapshot_checks: u64,
    pub fresh_replays: u64,
    pub residue_seen: u64,
    pub kinked: bool,
    /// nodes a pass has been started on (to classify repeat passes)
    pub started: Vec<usize>,
    pub reached_before: Vec<bool>,
}

impl Hist {
    pub fn new(r: &mut Rng, cfg: &GenCfg, snapshots_on: bool) -> Result<Hist, String> {
        let st = gen_leaves(r, cfg);
        let n = st.p.nodes.len();
        let mut h = Hist {
            st,
            handles: vec![],
            slot: vec![None; n],
            pending_pre: vec![],
            log: vec![],
            bound: 0.0,
            registry: vec![],
            kept_handles: vec![],
            seed_pool: vec![],
            reuse_seed_handles: false,
            seeds_handed_in_again: 0,
            snapshots_on,
            track_slots: true,
            failures: vec![],
            step: 0,
            passes: 0,
            pass_kinds: vec![],
            slot_checks: 0,
            snapshot_checks: 0,
            fresh_replays: 0,
            residue_seen: 0,
            kinked: false,
            started: vec![],
            reached_before: vec![false; n],
        };
        let arrays = guard(|| eval_corgi(&h.st.p))?;
        for (i, a) in arrays.into_iter().enumerate() {
            // every other leaf is watched in place, the others through a kept clone
            if i % 3 != 0 {
                h.register_in_place(i, &a, "leaf");
            } else {
                h.register(&a, "leaf");
            }
            h.handles.push(Some(a));
            h.log.push(format!("n{} = leaf", i));
        }
        Ok(h)
    }

    pub fn fail(&mut self, kind: &str, detail: String) {
        if self.failures.len() < 4 {
            self.failures.push(HFailure { kind: kind.to_string(), detail });
        }
    }

    pub fn register(&mut self, a: &Array, kind: &'static str) {
        if self.snapshots_on {
            self.registry.push(Snap { a: Some(a.clone()), node: usize::MAX, dims: a.dimensions().to_vec(), bits: bits(a), kind, born: self.step });
        }
    }

    /// watch the program's own handle of `node` without cloning it (reference counts stay what the program made them)
    pub fn register_in_place(&mut self, node: usize, a: &Array, kind: &'static str) {
        if self.snapshots_on {
            self.registry.push(Snap { a: None, node, dims: a.dimensions().to_vec(), bits: bits(a), kind, born: self.step });
        }
    }

    pub fn live(&self) -> Vec<usize> {
        (0..self.handles.len()).filter(|i| self.handles[*i].is_some()).collect()
    }
    pub fn live_ops(&self) -> Vec<usize> {
        self.live().into_iter().filter(|i| matches!(self.st.p.nodes[*i], Node::Op { .. })).collect()
    }

    pub fn text(&self) -> String {
        format!("{} || steps: {}", self.st.p.pretty(), self.log.join("; "))
    }

    /// does node i store a delta delivered to it (leaf-like, or it keeps its gradient)?
    fn stores(&self, i: usize, flags_at_use: &[Vec<bool>]) -> bool {
        let b = self.st.p.base(i);
        match &self.st.p.nodes[b] {
            Node::Leaf { .. } => true,
            Node::Op { post, kind, .. } => {
                let has_children = kind.result_tracked(flags_at_use[b].iter().any(|t| *t));
                !has_children || *post != Some(false)
            }
        }
    }

    fn flags_at_use(&self) -> Vec<Vec<bool>> {
        let p = &self.st.p;
        let n = p.nodes.len();
        let mut flags = vec![false; n];
        let mut out: Vec<Vec<bool>> = vec![vec![]; n];
        for (i, node) in p.nodes.iter().enumerate() {
            match node {
                Node::Leaf { tracked, .. } => flags[i] = *tracked,
                Node::Op { kind, args, post, pre } => {
                    for (h, on) in pre {
                        flags[*h] = *on;
                    }
                    out[i] = args.iter().map(|a| flags[*a]).collect();
                    let mut f = kind.result_tracked(args.iter().any(|a| flags[*a]));
                    if kind.is_alias() {
                        f = flags[args[0]];
                        out[i] = vec![];
                    }
                    if let Some(b) = post {
                        f = *b;
                    }
                    flags[i] = f;
                }
            }
        }
        out
    }

    /// Build one more operation over live handles. Returns false when no operation could be added.
    pub fn build(&mut self, r: &mut Rng, cfg: &GenCfg) -> bool {
        self.step += 1;
        for _ in 0..12 {
            let before = self.st.p.nodes.len();
            try_add_op(r, cfg, &mut self.st);
            if self.st.p.nodes.len() == before {
                continue;
            }
            let idx = before;
            let (args_live, is_alias) = match &self.st.p.nodes[idx] {
                Node::Op { args, kind, .. } => (args.iter().all(|a| self.handles[*a].is_some()), kind.is_alias()),
                _ => (false, false),
            };
            // sum(0) only of an operand that is tracked right now (see program.rs: aliasing artefact)
            let soft = matches!(&self.st.p.nodes[idx], Node::Op { kind, .. } if kind.is_soft_alias());
            let alias_of_untracked = is_alias && soft && {
                let a0 = match &self.st.p.nodes[idx] {
                    Node::Op { args, .. } => args[0],
                    _ => 0,
                };
                !self.handles[a0].as_ref().map(is_tracked).unwrap_or(false)
            };
            if !args_live || alias_of_untracked {
                self.st.p.nodes.pop();
                self.st.refv.pop();
                self.st.shadow.pop();
                continue;
            }
            if let Node::Op { pre, post, .. } = &mut self.st.p.nodes[idx] {
                *pre = std::mem::take(&mut self.pending_pre);
                if is_alias {
                    *post = None;
                }
            }
            // execute on the library (toggles were already applied to the handles when they were issued)
            let node = self.st.p.nodes[idx].clone();
            let res = guard(|| match &node {
                Node::Op { kind, args, post, .. } => {
                    let refs: Vec<&Array> = args.iter().map(|a| self.handles[*a].as_ref().unwrap()).collect();
                    let r = kind.apply_corgi(&refs, idx);
                    match post {
                        Some(true) => r.tracked(),
                        Some(false) => r.untracked(),
                        None => r,
                    }
                }
                _ => unreachable!(),
            });
            match res {
                Ok(a) => {
                    // values of the new node
                    let want = &self.st.refv[idx];
                    let exact = self.st.p.is_exact_class() && self.st.shadow[idx] < exact_bound();
                    let maxmag = self.st.refv.iter().map(|t| t.max_abs()).fold(1.0f64, f64::max);
                    let vscale = if exact { 1.0 } else { value_scales(&self.st.p).and_then(|v| v.get(idx).copied()).unwrap_or(1.0) };
                    if let Err((k, d)) = compare(a.dimensions(), &vals(&a), want, if exact { Rule::Exact } else { Rule::Tol(maxmag.max(vscale)) }) {
                        self.fail(&format!("build-{}", k), format!("node n{}: {}", idx, d));
                    }
                    if idx % 3 != 0 {
                        self.register_in_place(idx, &a, if is_alias { "alias" } else { "result" });
                    } else {
                        self.register(&a, if is_alias { "alias" } else { "result" });
                    }
                    self.handles.push(Some(a));
                    self.slot.push(None);
                    self.reached_before.push(false);
                    self.log.push(format!("build n{}", idx));
                    return true;
                }
                Err(m) => {
                    self.fail("build-panic", format!("building n{} panicked: {}", idx, m));
                    self.handles.push(None);
                    self.slot.push(None);
                    self.reached_before.push(false);
                    return false;
                }
            }
        }
        false
    }

    pub fn toggle(&mut self, node: usize, on: bool) {
        self.step += 1;
        if let Some(h) = &self.handles[node] {
            if on {
                h.start_tracking();
            } else {
                h.stop_tracking();
            }
            self.pending_pre.push((node, on));
            self.log.push(format!("n{}.{}_tracking()", node, if on { "start" } else { "stop" }));
        }
    }

    /// `w = w.untracked()` / `w = w.tracked()`: by-value flag change re-binding the program's variable (leaves only)
    pub fn rebind_flag(&mut self, node: usize, on: bool) {
        self.step += 1;
        if !matches!(self.st.p.nodes[node], Node::Leaf { .. }) {
            return;
        }
        if let Some(h) = self.handles[node].take() {
            let h = if on { h.tracked() } else { h.untracked() };
            self.handles[node] = Some(h);
            self.pending_pre.push((node, on));
            self.log.push(format!("n{} = n{}.{}()", node, node, if on { "tracked" } else { "untracked" }));
        }
    }

    pub fn drop_handle(&mut self, node: usize) {
        self.step += 1;
        if matches!(self.st.p.nodes[node], Node::Op { .. }) && self.handles[node].is_some() {
            self.handles[node] = None;
            self.log.push(format!("drop n{}", node));
        }
    }

    pub fn clear(&mut self, node: usize, via_replace: bool) {
        self.step += 1;
        // clearing through a `sum(0)` result would clear the operand's gradient only as long as the two alias each other
        if self.st.p.base(node) != node {
            return;
        }
        if let Some(h) = &self.handles[node] {
            if via_replace {
                let old = h.replace_gradient();
                if let Some(g) = old {
                    // the returned gradient is an independent array the caller may keep
                    self.register(&g, "replaced-gradient");
                }
            } else {
                *h.gradient_mut() = None;
            }
            let b = self.st.p.base(node);
            self.slot[b] = None;
            self.log.push(format!("clear n{} via {}", node, if via_replace { "replace_gradient" } else { "gradient_mut" }));
        }
    }

    /// The caller writes a gradient of its own into the slot (`*h.gradient_mut() = Some(g)`: a restored accumulator, a
    /// clipped or averaged gradient) and keeps a handle to the array it installed. Later passes add to the slot; the
    /// installed array itself stays what it was.
    pub fn install(&mut self, node: usize, r: &mut Rng) {
        self.step += 1;
        if self.st.p.base(node) != node {
            return;
        }
        if let Some(h) = &self.handles[node] {
            let dims = h.dimensions().to_vec();
            let v: Vec<f64> = (0..numel(&dims)).map(|_| r.int(-3, 3)).collect();
            let g = arr(&dims, &v);
            *h.gradient_mut() = Some(g.clone());
            self.register(&g, "installed-gradient");
            self.bound += v.iter().fold(1.0f64, |m, x| m.max(x.abs()));
            self.slot[node] = Some(Slot { scale: v.iter().map(|x| x.abs()).collect(), v, tainted: false, contributions: 1 });
            self.log.push(format!("install gradient on n{}", node));
        }
    }

    pub fn keep_clone(&mut self, node: usize) {
        self.step += 1;
        if let Some(h) = &self.handles[node] {
            let c = h.clone();
            self.register(&c, "clone");
            self.log.push(format!("keep clone of n{}", node));
        }
    }
    /// `let d = h.clone().untracked()` / `.tracked()`: a handle of its own with its flags changed by value (a detached
    /// copy for logging, a constant for another graph). Flags belong to the handle; `h` and its gradient stay as they are.
    pub fn flagged_clone(&mut self, node: usize, on: bool, keep: bool) {
        self.step += 1;
        if let Some(h) = &self.handles[node] {
            let c = if on { h.clone().tracked() } else { h.clone().untracked() };
            if keep {
                self.register(&c, "flagged-clone");
                self.kept_handles.push(c);
            }
            self.log.push(format!("{} n{}.clone().{}()", if keep { "keep" } else { "make and drop" }, node, if on { "tracked" } else { "untracked" }));
        }
    }
    pub fn keep_view(&mut self, node: usize) {
        self.step += 1;
        if let Some(h) = self.handles[node].clone() {
            let n = h.values().len();
            let v = h.reshape(vec![1, n]);
            self.register(&v, "reshaped-view");
            let s = h.sum(0);
            self.register(&s, "sum0-alias");
            self.log.push(format!("keep views of n{}", node));
        }
    }
    pub fn keep_gradient(&mut self, node: usize) {
        self.step += 1;
        if let Some(h) = &self.handles[node] {
            let g = h.gradient().as_ref().map(|g| g.clone());
            if let Some(g) = g {
                self.register(&g, "fetched-gradient");
                self.log.push(format!("keep gradient of n{}", node));
            }
        }
    }

    /// GradientDescent::update over a subset of leaves. Updated leaves become new leaf nodes of the program.
    pub fn update(&mut self, leaves: &[usize], lr: f64) {
        self.step += 1;
        let mut taken: Vec<(usize, Array)> = vec![];
        for l in leaves {
            if let Some(a) = self.handles[*l].take() {
                taken.push((*l, a));
            }
        }
        if taken.is_empty() {
            return;
        }
        let had_grad: Vec<bool> = taken.iter().map(|(_, a)| a.gradient().is_some()).collect();
        let res = guard(|| {
            let gd = GradientDescent::new(lr as Float);
            gd.update(taken.iter_mut().map(|(_, a)| a).collect());
        });
        if let Err(m) = res {
            self.fail("update-panic", format!("GradientDescent::update panicked: {}", m));
            return;
        }
        self.log.push(format!("update {:?} lr={}", leaves, lr));
        for ((old, a), had) in taken.into_iter().zip(had_grad) {
            if had {
                // a new array replaced the handle: it is a new leaf of the program
                let dims = a.dimensions().to_vec();
                let v = vals(&a);
                let tracked = is_tracked(&a);
                let idx = self.st.p.leaf(&dims, &v, tracked);
                self.st.shadow.push(v.iter().fold(1.0f64, |m, x| m.max(x.abs())));
                self.st.refv.push(T::from_f64(&dims, &v));
                self.register(&a, "updated-parameter");
                self.handles.push(Some(a));
                self.slot.push(None);
                self.reached_before.push(false);
                debug_assert_eq!(idx, self.handles.len() - 1);
                let _ = old;
            } else {
                self.handles[old] = Some(a);
            }
        }
    }

    /// Run a pass from a live node; updates the expected slots from the reference.
    pub fn pass(&mut self, start: usize, seed: &crate::checks::common::SeedMode, from_clone: bool, fresh_replay: bool) {
        self.step += 1;
        if self.handles[start].is_none() {
            return;
        }
        let p = self.st.p.clone();
        let dims = self.st.refv[start].dims.clone();
        let seedv = seed.values(numel(&dims));
        // classify
        let kind = if self.started.contains(&start) {
            "repeat-same-node"
        } else if start != p.root() && self.passes > 0 && self.reached_before[start] {
            "node-inside-earlier-graph"
        } else if self.passes > 0 {
            "overlapping-or-new-root"
        } else {
            "first"
        };
        self.pass_kinds.push(kind);
        self.started.push(start);
        self.passes += 1;
        let before: Vec<Option<(Vec<usize>, Vec<f64>)>> = self.handles.iter().map(|h| h.as_ref().and_then(grad_of)).collect();
        let mut seed_arr = seed.array(&dims);
        if self.reuse_seed_handles {
            if let Some(sa) = &seed_arr {
                let b = bits(sa);
                match self.seed_pool.iter().find(|(d, v, _)| d == &dims && v == &b) {
                    Some((_, _, held)) => {
                        seed_arr = Some(held.clone());
                        self.seeds_handed_in_again += 1;
                    }
                    None => self.seed_pool.push((dims.clone(), b, sa.clone())),
                }
            }
        }
        if let Some(s) = &seed_arr {
            // the caller may keep its seed: it must not change either
            self.register(s, "seed");
        }
        let res = guard(|| {
            let h = self.handles[start].as_ref().unwrap();
            if from_clone {
                let c = h.clone();
                c.backward(seed_arr);
            } else {
                h.backward(seed_arr);
            }
        });
        self.log.push(format!("n{}.backward({:?}){}", start, seed, if from_clone { " via clone" } else { "" }));
        if let Err(m) = res {
            self.fail("pass-panic", format!("backward on n{} panicked: {}", start, m));
            return;
        }
        if !self.track_slots {
            return;
        }
        // reference: which slots receive what
        let fau = self.flags_at_use();
        let reach = reachable_from(&p, start);
        let refv = &self.st.refv;
        let kink = p.nodes.iter().enumerate().any(|(i, n)| match n {
            Node::Op { kind: OpKind::Relu, args, .. } => {
                let eps = if p.is_exact_class() { 0.0 } else { 10.0 * tau() * refv.iter().map(|t| t.max_abs()).fold(1.0f64, f64::max) };
                reach[i] && near_kink(&refv[args[0]], eps)
            }
            _ => false,
        });
        if kink {
            self.kinked = true;
        }
        self.bound += shadow_bound(&p, &seedv, start);
        let mut done = vec![false; p.nodes.len()];
        for i in 0..p.nodes.len() {
            let b = p.base(i);
            if !reach[i] || done[b] {
                continue;
            }
            self.reached_before[i] = true;
            if !self.stores(b, &fau) {
                continue;
            }
            done[b] = true;
            let (g, sc) = match expected_gradient_scaled(&p, b, &seedv, start, !p.is_exact_class() || self.bound > exact_bound()) {
                Some(x) => x,
                None => continue,
            };
            match &mut self.slot[b] {
                Some(s) => {
                    for j in 0..g.len() {
                        s.v[j] += g[j];
                        s.scale[j] += sc[j];
                    }
                    s.tainted |= kink;
                    s.contributions += 1;
                }
                None => self.slot[b] = Some(Slot { v: g, scale: sc, tainted: kink, contributions: 1 }),
            }
        }
        // metamorphic: the same pass alone on a fresh instance of the same program text must produce exactly the
        // increments observed here (integer programs: bit-exact)
        if fresh_replay && !kink && p.is_exact_class() && self.bound <= exact_bound() {
            let fresh = guard(|| {
                let arrays = eval_corgi(&p);
                arrays[start].backward(seed.array(&dims));
                arrays.iter().map(grad_of).collect::<Vec<_>>()
            });
            self.fresh_replays += 1;
            match fresh {
                Err(m) => self.fail("fresh-pass-panic", format!("the same pass on a fresh instance panicked: {}", m)),
                Ok(fg) => {
                    for i in 0..p.nodes.len() {
                        let h = match &self.handles[i] {
                            Some(h) => h,
                            None => continue,
                        };
                        let after = grad_of(h);
                        let inc: Option<Vec<f64>> = match (&before[i], &after) {
                            (None, None) => None,
                            (None, Some((_, a))) => Some(a.clone()),
                            (Some((_, b)), Some((_, a))) if a.len() == b.len() => Some(a.iter().zip(b).map(|(x, y)| x - y).collect()),
                            _ => Some(vec![f64::NAN]),
                        };
                        let fresh_i = fg[i].as_ref().map(|x| x.1.clone());
                        let is_leaf = matches!(p.nodes[i], Node::Leaf { .. });
                        let same = match (&inc, &fresh_i) {
                            (None, None) => true,
                            (Some(a), None) => a.iter().all(|x| *x == 0.0) && before[i].is_some(),
                            (Some(a), Some(b)) => a == b,
                            // an intermediate that keeps no gradient here but does on the fresh instance (or vice versa)
                            // would be a dependence on history only for arrays that must store: leaves
                            (None, Some(_)) => !is_leaf,
                        };
                        if !same {
                            self.fail(
                                "pass-depends-on-history",
                                format!("n{}: this pass added {:?} to the gradient, the same pass alone on a fresh instance produces {:?}", i, inc, fresh_i),
                            );
                            break;
                        }
                    }
                }
            }
        }
    }

    /// C10 monitor: every live handle's gradient() against the expected slot.
    pub fn check_slots(&mut self) {
        let exact = self.st.p.is_exact_class() && self.bound <= exact_bound();
        let maxmag = self.st.refv.iter().map(|t| t.max_abs()).fold(1.0f64, f64::max);
        let mut fails: Vec<(String, String)> = vec![];
        for i in 0..self.handles.len() {
            let h = match &self.handles[i] {
                Some(h) => h,
                None => continue,
            };
            let b = self.st.p.base(i);
            if b != i {
                // a `sum(0)` result: today an alias of its operand (same slot) - judged through the operand's own
                // handle, so that an implementation returning an independent copy is not accused
                continue;
            }
            self.slot_checks += 1;
            let g = grad_of(h);
            match (&g, &self.slot[b]) {
                (None, None) => {}
                (Some((gd, gv)), None) => fails.push(("gradient-unexpected".into(), format!("n{} holds gradient dims {:?} values {} but no pass since the last clear delivered to it", i, gd, short(gv)))),
                (None, Some(s)) => {
                    // presence is required of leaves and of explicitly tracked() results; whether other intermediates
                    // keep their gradient is the library's choice (if they do, it must be the right sum)
                    let must = match &self.st.p.nodes[b] {
                        Node::Leaf { .. } => true,
                        Node::Op { post, .. } => *post == Some(true),
                    };
                    if must {
                        fails.push(("gradient-missing".into(), format!("n{} holds no gradient but {} contribution(s) were due: {}", i, s.contributions, short(&s.v))));
                    }
                }
                (Some((gd, gv)), Some(s)) => {
                    if gd != &self.st.refv[b].dims {
                        fails.push(("gradient-dims".into(), format!("n{} gradient dims {:?}, array dims {:?}", i, gd, self.st.refv[b].dims)));
                        continue;
                    }
                    if s.tainted {
                        continue;
                    }
                    for j in 0..gv.len() {
                        let ok = if exact { gv[j] == s.v[j] } else { (gv[j] - s.v[j]).abs() <= tau() * s.scale[j].max(maxmag).max(1.0) };
                        if !ok {
                            fails.push((
                                "gradient-sum".into(),
                                format!("n{} element {}: gradient {} but the sum of the {} single-pass gradients since the last clear is {}; got {} want {}", i, j, gv[j], s.contributions, s.v[j], short(gv), short(&s.v)),
                            ));
                            break;
                        }
                    }
                }
            }
        }
        for (k, d) in fails {
            self.fail(&k, d);
        }
    }

    /// C08 monitor: every registered handle still shows its creation snapshot.
    pub fn verify_snapshots(&mut self) {
        let mut fails = vec![];
        for s in &self.registry {
            let a: &Array = match &s.a {
                Some(a) => a,
                None => match self.handles.get(s.node).and_then(|h| h.as_ref()) {
                    Some(h) => h,
                    None => continue, // the program dropped (or replaced) this handle: nothing left to observe
                },
            };
            self.snapshot_checks += 1;
            if a.dimensions() != &s.dims[..] {
                fails.push(format!("a {} handle registered at step {} changed dimensions {:?} -> {:?}", s.kind, s.born, s.dims, a.dimensions()));
            } else if bits(a) != s.bits {
                let old: Vec<f64> = s.bits.iter().map(|b| f64::from_bits(*b)).collect();
                fails.push(format!("a {} handle registered at step {} changed values {} -> {}", s.kind, s.born, short(&old), short(&vals(a))));
            }
        }
        for f in fails.into_iter().take(2) {
            let kind = f.split(' ').nth(1).unwrap_or("handle").to_string();
            self.fail(&format!("mutated-{}", kind), f);
        }
    }

    /// hook (steering only): nodes that still hold a pending delta or a non-zero consumer counter
    pub fn residue_nodes(&mut self) -> Vec<usize> {
        let mut out = vec![];
        for i in 0..self.handles.len() {
            if let Some(h) = &self.handles[i] {
                let s = h.verif_state();
                if s.consumer_count != 0 || s.delta_pending {
                    out.push(i);
                }
            }
        }
        self.residue_seen += out.len() as u64;
        out
    }
}
