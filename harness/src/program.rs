//! Expression-DAG programs: representation, pretty-printer, corgi interpreter, reference interpreter
//! (generic over the scalar), forward-mode gradient oracle, exactness certification, random generator.

use crate::cg::*;
use crate::refmodel::*;
use crate::rng::Rng;
use corgi::array::{Array, BackwardOp, ForwardOp};
use corgi::numbers::Float;
use std::cell::RefCell;
use std::rc::Rc;

#[derive(Clone, Debug, PartialEq)]
pub enum OpKind {
    Add,
    Sub,
    Mul,
    Div,
    Axpy(f64),
    Neg,
    Scale(f64),
    Powf(f64),
    Ln,
    Exp,
    Recip,
    Relu,
    Sigmoid,
    Softmax,
    Sum(usize),
    Reshape(Vec<usize>),
    Matmul { ta: bool, tb: bool, c: bool },
    Conv { sr: usize, sc: usize },
    // user-defined operations through Array::op (element-wise, operands of identical shape)
    CMul,
    CAdd,
    CNeg,
    CFma,
    CCube,
    /// as CMul / CNeg, but the derivative closure is passed to Array::op unconditionally (the natural way to call it):
    /// the result is tracked and records its operands whether or not any of them is tracked
    CMulF,
    CNegF,
    /// cube whose derivative closure differentiates a private graph of its own (a nested backward pass inside a pass)
    CNested,
    /// composite user operation: `Array::op(&[a, b], forward, None)` whose forward closure is written with library
    /// operators (a * b + a), so the result carries the graph those operators recorded and no derivative of its own
    CComp,
    /// user operations whose derivative closures are written with library operators on the recorded operands and the
    /// adjoint (`&children[1] * delta`): a * b, and the four-operand a * b + c * d
    CLibMul,
    CLib4,
    /// straight-through estimator: the forward closure is written with a library operator (`x.relu()`, so its result
    /// arrives with a graph of its own), the derivative handed to `Array::op` is the identity - the user's derivative
    /// is the one that counts
    CSte,
    /// user-defined operation WITHOUT a derivative whose forward builds its result from raw values (a step / mask
    /// function): 1 where the operand is positive, 0 elsewhere. Its result is a plain constant, whatever the operand's
    /// tracking: a gate for the rest of the graph
    CGate,
    /// `h.clone()`: another handle of the same array (same node, same gradient slot) with a copy of the flags it had
    /// at that moment and a life of its own afterwards
    CloneH,
}

impl OpKind {
    pub fn arity(&self) -> usize {
        use OpKind::*;
        match self {
            Add | Sub | Mul | Div | Axpy(_) | CMul | CMulF | CAdd | CComp | CLibMul | Conv { .. } => 2,
            CLib4 => 4,
            Matmul { c, .. } => {
                if *c {
                    3
                } else {
                    2
                }
            }
            CFma => 3,
            _ => 1,
        }
    }
    pub fn name(&self) -> String {
        use OpKind::*;
        match self {
            Add => "add".into(),
            Sub => "sub".into(),
            Mul => "mul".into(),
            Div => "div".into(),
            Axpy(a) => format!("axpy({})", a),
            Neg => "neg".into(),
            Scale(s) => format!("scale({})", s),
            Powf(e) => format!("powf({})", e),
            Ln => "ln".into(),
            Exp => "exp".into(),
            Recip => "reciprocal".into(),
            Relu => "relu".into(),
            Sigmoid => "sigmoid".into(),
            Softmax => "softmax".into(),
            Sum(k) => format!("sum({})", k),
            Reshape(d) => format!("reshape({:?})", d),
            Matmul { ta, tb, c } => format!("matmul(ta={},tb={},c={})", *ta as u8, *tb as u8, *c as u8),
            Conv { sr, sc } => format!("conv({},{})", sr, sc),
            CMul => "custom_mul".into(),
            CAdd => "custom_add".into(),
            CNeg => "custom_neg".into(),
            CFma => "custom_fma".into(),
            CCube => "custom_cube".into(),
            CMulF => "custom_mul_forced".into(),
            CNegF => "custom_neg_forced".into(),
            CNested => "custom_cube_nested".into(),
            CComp => "custom_composite".into(),
            CSte => "custom_ste_relu".into(),
            CGate => "custom_gate_no_derivative".into(),
            CloneH => "clone".into(),
            CLibMul => "custom_mul_libderiv".into(),
            CLib4 => "custom_fma4_libderiv".into(),
        }
    }
    /// operation family without parameters (for histograms)
    pub fn family(&self) -> &'static str {
        use OpKind::*;
        match self {
            Add => "add",
            Sub => "sub",
            Mul => "mul",
            Div => "div",
            Axpy(_) => "axpy",
            Neg => "neg",
            Scale(_) => "scale",
            Powf(_) => "powf",
            Ln => "ln",
            Exp => "exp",
            Recip => "reciprocal",
            Relu => "relu",
            Sigmoid => "sigmoid",
            Softmax => "softmax",
            Sum(_) => "sum",
            Reshape(_) => "reshape",
            Matmul { .. } => "matmul",
            Conv { .. } => "conv",
            CMul => "custom_mul",
            CAdd => "custom_add",
            CNeg => "custom_neg",
            CFma => "custom_fma",
            CCube => "custom_cube",
            CMulF => "custom_mul_forced",
            CNegF => "custom_neg_forced",
            CNested => "custom_cube_nested",
            CComp => "custom_composite",
            CSte => "custom_ste_relu",
            CGate => "custom_gate_no_derivative",
            CloneH => "clone",
            CLibMul => "custom_mul_libderiv",
            CLib4 => "custom_fma4_libderiv",
        }
    }
    /// the derivative closure is passed to Array::op even when no operand is tracked
    pub fn forces_tracking(&self) -> bool {
        matches!(self, OpKind::CMulF | OpKind::CNegF)
    }
    /// tracking flag of the result given whether any operand is tracked at the moment of use
    pub fn result_tracked(&self, any_operand_tracked: bool) -> bool {
        (any_operand_tracked || self.forces_tracking()) && !matches!(self, OpKind::CGate)
    }
    pub fn is_custom(&self) -> bool {
        matches!(self, OpKind::CMul | OpKind::CAdd | OpKind::CNeg | OpKind::CFma | OpKind::CCube | OpKind::CMulF | OpKind::CNegF | OpKind::CNested | OpKind::CLibMul | OpKind::CLib4 | OpKind::CSte)
    }
    /// integer data stays integer (bit-exact in any evaluation order while magnitudes stay below the bound)
    pub fn is_exact(&self) -> bool {
        use OpKind::*;
        match self {
            Add | Sub | Mul | Neg | Relu | Sum(_) | Reshape(_) | Matmul { .. } | Conv { .. } | CMul | CAdd | CNeg
            | CFma | CCube | CMulF | CNegF | CNested | CComp | CLibMul | CLib4 | CSte | CGate | CloneH => true,
            Scale(s) | Axpy(s) => s.fract() == 0.0,
            _ => false,
        }
    }
    /// an alias of its operand (same node, shared gradient slot)
    pub fn is_alias(&self) -> bool {
        matches!(self, OpKind::Sum(0) | OpKind::CloneH)
    }
    /// an alias only by today's implementation (`sum(0)` may as well return a copy): generators keep it away from the
    /// situations in which the two readings differ. A clone is an alias by definition.
    pub fn is_soft_alias(&self) -> bool {
        matches!(self, OpKind::Sum(0))
    }

    pub fn apply_ref<S: Sc>(&self, a: &[&T<S>]) -> Option<T<S>> {
        use OpKind::*;
        Some(match self {
            Add => a[0].zip(a[1], |x, y| x + y)?,
            Sub => a[0].zip(a[1], |x, y| x - y)?,
            Mul => a[0].zip(a[1], |x, y| x * y)?,
            Div => a[0].zip(a[1], |x, y| x / y)?,
            Axpy(al) => {
                let al = *al;
                a[0].zip(a[1], |x, y| S::c(al) * x + y)?
            }
            Neg => a[0].map(|x| -x),
            Scale(s) => {
                let s = *s;
                a[0].map(|x| x * S::c(s))
            }
            Powf(e) => {
                let e = *e;
                a[0].map(|x| x.powf(e))
            }
            Ln => a[0].map(|x| x.ln()),
            Exp => a[0].map(|x| x.exp()),
            Recip => a[0].map(|x| S::c(1.0) / x),
            Relu => a[0].relu(),
            Sigmoid => a[0].sigmoid(),
            Softmax => a[0].softmax(),
            Sum(k) => {
                if *k > a[0].dims.len() {
                    return None;
                }
                a[0].sum(*k)
            }
            Reshape(d) => a[0].reshape(d)?,
            Matmul { ta, tb, c } => T::matmul(a[0], *ta, a[1], *tb, if *c { Some(a[2]) } else { None })?,
            Conv { sr, sc } => T::conv(a[0], a[1], *sr, *sc)?,
            CMul | CMulF => same(a[0], a[1])?.zip(a[1], |x, y| x * y)?,
            CAdd => same(a[0], a[1])?.zip(a[1], |x, y| x + y)?,
            CNeg | CNegF => a[0].map(|x| -x),
            CFma => {
                same(a[0], a[1])?;
                same(a[0], a[2])?;
                a[0].zip(a[1], |x, y| x * y)?.zip(a[2], |p, z| p + z)?
            }
            CCube | CNested => a[0].map(|x| x * x * x),
            CSte => a[0].map(|x| x.ste_relu()),
            CGate => a[0].map(|x| x.gate()),
            CloneH => a[0].clone(),
            CComp => same(a[0], a[1])?.zip(a[1], |x, y| x * y)?.zip(a[0], |p, x| p + x)?,
            CLibMul => same(a[0], a[1])?.zip(a[1], |x, y| x * y)?,
            CLib4 => {
                same(a[0], a[1])?;
                same(a[0], a[2])?;
                same(a[0], a[3])?;
                a[0].zip(a[1], |x, y| x * y)?.zip(&a[2].zip(a[3], |x, y| x * y)?, |p, q| p + q)?
            }
        })
    }

    pub fn apply_corgi(&self, a: &[&Array], node_id: usize) -> Array {
        use OpKind::*;
        match self {
            Add => a[0] + a[1],
            Sub => a[0] - a[1],
            Mul => a[0] * a[1],
            Div => a[0] / a[1],
            Axpy(al) => Array::axpy(*al as Float, a[0], a[1]),
            Neg => -a[0],
            // both spellings of the scalar product: `&a * s` and `s * &a`
            Scale(s) => {
                if node_id % 2 == 0 {
                    a[0] * (*s as Float)
                } else {
                    (*s as Float) * a[0]
                }
            }
            Powf(e) => a[0].powf(*e as Float),
            Ln => a[0].ln(),
            Exp => a[0].exp(),
            Recip => a[0].reciprocal(),
            Relu => a[0].relu(),
            Sigmoid => a[0].sigmoid(),
            Softmax => a[0].softmax(),
            Sum(k) => a[0].sum(*k),
            Reshape(d) => a[0].reshape(d.clone()),
            Matmul { ta, tb, c } => Array::matmul((a[0], *ta), (a[1], *tb), if *c { Some(a[2]) } else { None }),
            Conv { sr, sc } => a[0].conv(a[1], (*sr, *sc)),
            CMul | CAdd | CNeg | CFma | CCube | CMulF | CNegF | CNested | CLibMul | CLib4 | CSte => custom_op(self, a, node_id),
            CloneH => a[0].clone(),
            CComp => {
                let f: ForwardOp = Rc::new(|x: &[&Array]| &(x[0] * x[1]) + x[0]);
                Array::op(a, f, None)
            }
            CGate => {
                let f: ForwardOp = Rc::new(|x: &[&Array]| {
                    Array::from((x[0].dimensions().to_vec(), x[0].values().iter().map(|v| if *v > 0.0 { 1.0 } else { 0.0 }).collect::<Vec<Float>>()))
                });
                Array::op(a, f, None)
            }
        }
    }
}

fn same<'a, S: Sc>(a: &'a T<S>, b: &T<S>) -> Option<&'a T<S>> {
    if a.dims == b.dims {
        Some(a)
    } else {
        None
    }
}

// ---------------------------------------------------------------------------------------------------------
// user-defined operations with logging derivative closures (invocation log = the C11 boundary recorder)

#[derive(Clone, Debug)]
pub struct Invocation {
    pub node: usize,
    pub seed_dims: Vec<usize>,
    pub seed: Vec<f64>,
}

pub struct InvLog {
    pub entries: Vec<Invocation>,
    /// panic (inside the closure, i.e. inside the pass) on a second invocation of one node since the last clear
    pub fail_fast: bool,
    pub tripped: Option<usize>,
}

thread_local! {
    pub static INVLOG: RefCell<InvLog> = RefCell::new(InvLog { entries: vec![], fail_fast: false, tripped: None });
}

pub fn invlog_reset(fail_fast: bool) {
    INVLOG.with(|l| {
        let mut l = l.borrow_mut();
        l.entries.clear();
        l.fail_fast = fail_fast;
        l.tripped = None;
    });
}
pub fn invlog_take() -> (Vec<Invocation>, Option<usize>) {
    INVLOG.with(|l| {
        let mut l = l.borrow_mut();
        (std::mem::take(&mut l.entries), l.tripped.take())
    })
}

pub const C11_TRIP: &str = "C11-MONITOR: derivative closure invoked twice in one pass";

thread_local! {
    /// every derivative closure handed to `Array::op` holds a clone of this token: its strong count - 1 is the number
    /// of user closures (that is, of user-operation graph nodes) still alive
    static CLOSURE_TOKEN: RefCell<Rc<()>> = RefCell::new(Rc::new(()));
}
thread_local! {
    /// when on, every derivative closure keeps a clone of the adjoint it was handed (user code may hold on to it): the
    /// C08 monitor re-verifies them against the bit-exact copy taken at the call
    pub static KEPT_DELTAS: RefCell<Option<Vec<(Array, Vec<usize>, Vec<u64>)>>> = RefCell::new(None);
}
pub fn kept_deltas_enable(on: bool) {
    KEPT_DELTAS.with(|k| *k.borrow_mut() = if on { Some(vec![]) } else { None });
}
/// (number kept, description of the first one that changed)
pub fn kept_deltas_verify() -> (usize, Option<String>) {
    KEPT_DELTAS.with(|k| match k.borrow().as_ref() {
        None => (0, None),
        Some(v) => {
            for (a, d, b) in v {
                if a.dimensions() != &d[..] || bits(a) != *b {
                    return (v.len(), Some(format!("an adjoint handed to a derivative closure (dims {:?}) changed after the call: now dims {:?} values {}", d, a.dimensions(), crate::cg::short(&vals(a)))));
                }
            }
            (v.len(), None)
        }
    })
}
pub fn closure_token_reset() {
    CLOSURE_TOKEN.with(|t| *t.borrow_mut() = Rc::new(()));
}
pub fn user_closures_alive() -> usize {
    CLOSURE_TOKEN.with(|t| Rc::strong_count(&t.borrow()) - 1)
}

fn custom_op(kind: &OpKind, args: &[&Array], node_id: usize) -> Array {
    let k = kind.clone();
    let k2 = kind.clone();
    let token: Rc<()> = CLOSURE_TOKEN.with(|t| t.borrow().clone());
    let f: ForwardOp = Rc::new(move |x: &[&Array]| {
        for o in x.iter().skip(1) {
            assert_eq!(o.dimensions(), x[0].dimensions(), "custom op: operands must have the same shape");
        }
        if let OpKind::CSte = k {
            return x[0].relu();
        }
        let v: Vec<Float> = match k {
            OpKind::CMul | OpKind::CMulF | OpKind::CLibMul => x[0].values().iter().zip(x[1].values()).map(|(a, b)| a * b).collect(),
            OpKind::CLib4 => (0..x[0].values().len()).map(|i| x[0].values()[i] * x[1].values()[i] + x[2].values()[i] * x[3].values()[i]).collect(),
            OpKind::CAdd => x[0].values().iter().zip(x[1].values()).map(|(a, b)| a + b).collect(),
            OpKind::CNeg | OpKind::CNegF => x[0].values().iter().map(|a| -a).collect(),
            OpKind::CFma => x[0]
                .values()
                .iter()
                .zip(x[1].values())
                .zip(x[2].values())
                .map(|((a, b), c)| a * b + c)
                .collect(),
            _ => x[0].values().iter().map(|a| a * a * a).collect(),
        };
        Array::from((x[0].dimensions().to_vec(), v))
    });
    let b: BackwardOp = Rc::new(move |c, t, d| {
        let _held = &token;
        KEPT_DELTAS.with(|k| {
            if let Some(v) = k.borrow_mut().as_mut() {
                if v.len() < 64 {
                    v.push((d.clone(), d.dimensions().to_vec(), bits(d)));
                }
            }
        });
        let trip = INVLOG.with(|l| {
            let mut l = l.borrow_mut();
            let dup = l.entries.iter().any(|e| e.node == node_id);
            l.entries.push(Invocation { node: node_id, seed_dims: d.dimensions().to_vec(), seed: vals(d) });
            if dup && l.fail_fast {
                l.tripped = Some(node_id);
                true
            } else {
                false
            }
        });
        if trip {
            panic!("{}", C11_TRIP);
        }
        let mk = |v: Vec<Float>| Some(Array::from((d.dimensions().to_vec(), v)));
        let dv = d.values();
        let opt = |i: usize, v: Vec<Float>| if t[i] { mk(v) } else { None };
        match k2 {
            OpKind::CNested => {
                // derivative by a nested pass over a private graph: y = p*p*p on a tracked private copy of the operand
                if !t[0] {
                    return vec![None];
                }
                let p = Array::from((c[0].dimensions().to_vec(), c[0].values().to_vec())).tracked();
                let y = &(&p * &p) * &p;
                y.backward(Some(Array::from((d.dimensions().to_vec(), dv.to_vec()))));
                let g = p.gradient().as_ref().map(|g| g.values().to_vec()).unwrap_or_else(|| vec![0.0 as Float; dv.len()]);
                vec![mk(g)]
            }
            OpKind::CSte => vec![opt(0, dv.to_vec())],
            OpKind::CLibMul => vec![if t[0] { Some(&c[1] * d) } else { None }, if t[1] { Some(&c[0] * d) } else { None }],
            OpKind::CLib4 => vec![
                if t[0] { Some(&c[1] * d) } else { None },
                if t[1] { Some(&c[0] * d) } else { None },
                if t[2] { Some(&c[3] * d) } else { None },
                if t[3] { Some(&c[2] * d) } else { None },
            ],
            OpKind::CMul | OpKind::CMulF => vec![
                opt(0, dv.iter().zip(c[1].values()).map(|(a, b)| a * b).collect()),
                opt(1, dv.iter().zip(c[0].values()).map(|(a, b)| a * b).collect()),
            ],
            OpKind::CAdd => vec![opt(0, dv.to_vec()), opt(1, dv.to_vec())],
            OpKind::CNeg | OpKind::CNegF => vec![opt(0, dv.iter().map(|a| -a).collect())],
            OpKind::CFma => vec![
                opt(0, dv.iter().zip(c[1].values()).map(|(a, b)| a * b).collect()),
                opt(1, dv.iter().zip(c[0].values()).map(|(a, b)| a * b).collect()),
                opt(2, dv.to_vec()),
            ],
            _ => vec![opt(0, dv.iter().zip(c[0].values()).map(|(a, x)| a * (3.0 * x * x)).collect())],
        }
    });
    // the caller decides tracking of a custom node by passing a derivative or not (as the built-in ops do)
    if kind.forces_tracking() || args.iter().any(|x| is_tracked(x)) {
        Array::op(args, f, Some(b))
    } else {
        Array::op(args, f, None)
    }
}

// ---------------------------------------------------------------------------------------------------------

#[derive(Clone, Debug)]
pub enum Node {
    Leaf {
        dims: Vec<usize>,
        vals: Vec<f64>,
        tracked: bool,
    },
    Op {
        kind: OpKind,
        args: Vec<usize>,
        /// `.tracked()` / `.untracked()` applied to the result
        post: Option<bool>,
        /// start_tracking()/stop_tracking() applied to earlier handles right before this operation
        pre: Vec<(usize, bool)>,
    },
}

#[derive(Clone, Debug, Default)]
pub struct Program {
    pub nodes: Vec<Node>,
}

impl Program {
    pub fn leaf(&mut self, dims: &[usize], vals: &[f64], tracked: bool) -> usize {
        self.nodes.push(Node::Leaf { dims: dims.to_vec(), vals: vals.to_vec(), tracked });
        self.nodes.len() - 1
    }
    pub fn op(&mut self, kind: OpKind, args: &[usize]) -> usize {
        self.nodes.push(Node::Op { kind, args: args.to_vec(), post: None, pre: vec![] });
        self.nodes.len() - 1
    }
    pub fn root(&self) -> usize {
        self.nodes.len() - 1
    }
    pub fn leaves(&self) -> Vec<usize> {
        (0..self.nodes.len()).filter(|i| matches!(self.nodes[*i], Node::Leaf { .. })).collect()
    }
    pub fn n_ops(&self) -> usize {
        self.nodes.len() - self.leaves().len()
    }
    /// node whose gradient slot this node shares (resolves `sum(0)` aliases)
    pub fn base(&self, mut i: usize) -> usize {
        loop {
            match &self.nodes[i] {
                Node::Op { kind, args, .. } if kind.is_alias() => i = args[0],
                _ => return i,
            }
        }
    }
    pub fn is_exact_class(&self) -> bool {
        self.nodes.iter().all(|n| match n {
            Node::Leaf { vals, .. } => vals.iter().all(|x| x.fract() == 0.0),
            Node::Op { kind, .. } => kind.is_exact(),
        })
    }
    pub fn has_relu(&self) -> bool {
        self.nodes.iter().any(|n| matches!(n, Node::Op { kind: OpKind::Relu, .. }))
    }
    /// structural description: topology, shapes, operation parameters, tracking - no data
    pub fn desc(&self) -> String {
        let mut s = String::new();
        for (i, n) in self.nodes.iter().enumerate() {
            match n {
                Node::Leaf { dims, tracked, .. } => s.push_str(&format!("n{}=leaf{:?}{};", i, dims, if *tracked { "T" } else { "U" })),
                Node::Op { kind, args, post, pre } => {
                    for (h, on) in pre {
                        s.push_str(&format!("n{}.{};", h, if *on { "start" } else { "stop" }));
                    }
                    s.push_str(&format!("n{}={}{:?}", i, kind.name(), args));
                    if let Some(p) = post {
                        s.push_str(if *p { ".tracked" } else { ".untracked" });
                    }
                    s.push(';');
                }
            }
        }
        s
    }
    /// full text with data (samples, replay details)
    pub fn pretty(&self) -> String {
        let mut s = String::new();
        for (i, n) in self.nodes.iter().enumerate() {
            match n {
                Node::Leaf { dims, vals, tracked } => s.push_str(&format!(
                    "n{} = Array{:?}{}{}; ",
                    i,
                    dims,
                    short(vals),
                    if *tracked { ".tracked()" } else { "" }
                )),
                Node::Op { kind, args, post, pre } => {
                    for (h, on) in pre {
                        s.push_str(&format!("n{}.{}_tracking(); ", h, if *on { "start" } else { "stop" }));
                    }
                    let a: Vec<String> = args.iter().map(|x| format!("n{}", x)).collect();
                    s.push_str(&format!("n{} = {}({})", i, kind.name(), a.join(",")));
                    if let Some(p) = post {
                        s.push_str(if *p { ".tracked()" } else { ".untracked()" });
                    }
                    s.push_str("; ");
                }
            }
        }
        s
    }
    /// number of distinct root-to-leaf paths (saturating), fan-out statistics
    pub fn path_count(&self) -> f64 {
        let n = self.nodes.len();
        let mut paths = vec![0.0f64; n];
        paths[n - 1] = 1.0;
        for i in (0..n).rev() {
            if let Node::Op { args, .. } = &self.nodes[i] {
                for a in args {
                    paths[*a] += paths[i];
                }
            }
        }
        self.leaves().iter().map(|l| paths[*l]).sum()
    }
    pub fn max_fanout(&self) -> usize {
        let mut f = vec![0usize; self.nodes.len()];
        for n in &self.nodes {
            if let Node::Op { args, .. } = n {
                for a in args {
                    f[*a] += 1;
                }
            }
        }
        f.into_iter().max().unwrap_or(0)
    }
    pub fn has_self_use(&self) -> bool {
        self.nodes.iter().any(|n| match n {
            Node::Op { args, .. } => args.len() >= 2 && (args[0] == args[1] || (args.len() > 2 && (args[0] == args[2] || args[1] == args[2]))),
            _ => false,
        })
    }
    pub fn depth(&self) -> usize {
        let mut d = vec![0usize; self.nodes.len()];
        for (i, n) in self.nodes.iter().enumerate() {
            if let Node::Op { args, .. } = n {
                d[i] = 1 + args.iter().map(|a| d[*a]).max().unwrap_or(0);
            }
        }
        d.into_iter().max().unwrap_or(0)
    }
    /// does any broadcasting op have operands of different shapes, with one of them used more than once?
    pub fn has_broadcast(&self, shapes: &[Vec<usize>]) -> bool {
        self.nodes.iter().any(|n| match n {
            Node::Op { kind, args, .. } => {
                matches!(kind, OpKind::Add | OpKind::Sub | OpKind::Mul | OpKind::Div | OpKind::Axpy(_))
                    && shapes[args[0]] != shapes[args[1]]
            }
            _ => false,
        })
    }
}

// ---------------------------------------------------------------------------------------------------------
// interpreters

/// tracking flag of every handle as the program text defines it (independent of the library)
pub struct RefRun<S> {
    pub vals: Vec<T<S>>,
    /// flag of node i's handle after the whole program ran
    pub flags: Vec<bool>,
    /// flag each node's handle had when created
    pub flags_at_creation: Vec<bool>,
}

/// Evaluate on the reference model. `leaf(i, dims, vals)` provides leaf tensors (lets callers plant tangents);
/// `inject` adds tangent 1 to element j of node m right after it is computed (for interior adjoints).
/// Derivatives only flow through operands that are tracked when used (C09 semantics).
pub fn eval_ref<S: Sc>(
    p: &Program,
    leaf: &dyn Fn(usize, &[usize], &[f64]) -> T<S>,
    inject: Option<(usize, &dyn Fn(&mut T<S>))>,
) -> Option<RefRun<S>> {
    let mut v: Vec<T<S>> = Vec::with_capacity(p.nodes.len());
    let mut flags: Vec<bool> = Vec::with_capacity(p.nodes.len());
    let mut at_creation = Vec::with_capacity(p.nodes.len());
    for (i, n) in p.nodes.iter().enumerate() {
        let mut t = match n {
            Node::Leaf { dims, vals, tracked } => {
                flags.push(*tracked);
                leaf(i, dims, vals)
            }
            Node::Op { kind, args, post, pre } => {
                for (h, on) in pre {
                    flags[*h] = *on;
                }
                let detached: Vec<T<S>> =
                    args.iter().map(|a| if flags[*a] { v[*a].clone() } else { v[*a].map(|x| x.detach()) }).collect();
                let refs: Vec<&T<S>> = detached.iter().collect();
                let mut r = kind.apply_ref(&refs)?;
                let mut f = kind.result_tracked(args.iter().any(|a| flags[*a]));
                if kind.is_alias() {
                    f = flags[args[0]];
                    r = v[args[0]].clone();
                }
                if let Some(b) = post {
                    f = *b;
                }
                flags.push(f);
                r
            }
        };
        at_creation.push(flags[i]);
        if let Some((m, f)) = &inject {
            if *m == i {
                f(&mut t);
            }
        }
        v.push(t);
    }
    Some(RefRun { vals: v, flags, flags_at_creation: at_creation })
}

pub fn eval_ref_plain(p: &Program) -> Option<RefRun<f64>> {
    eval_ref::<f64>(p, &|_, d, x| T::from_f64(d, x), None)
}

/// Per node: the largest running error scale of its elements (see `VA`), the magnitude a floating-point evaluation of
/// the node's value is uncertain relative to - terms cancelled inside a fused operation or upstream included.
pub fn value_scales(p: &Program) -> Option<Vec<f64>> {
    let run = eval_ref::<VA>(p, &|_, d, x| T::from_f64(d, x), None)?;
    Some(run.vals.iter().map(|t| t.v.iter().fold(1.0f64, |m, e| m.max(e.s + e.v.abs()))).collect())
}

/// Run the program on the real library. Returns every node's handle.
thread_local! {
    /// how `eval_corgi` gives leaves their tracking state: false - by value at creation (`arr.tracked()` / plain);
    /// true - by reference afterwards (plain then `start_tracking()`; `tracked()` then `stop_tracking()`)
    pub static LEAF_FLAGS_BY_REFERENCE: std::cell::Cell<bool> = std::cell::Cell::new(false);
}
pub fn leaf_flags_by_reference(on: bool) {
    LEAF_FLAGS_BY_REFERENCE.with(|c| c.set(on));
}

pub fn eval_corgi(p: &Program) -> Vec<Array> {
    let mut v: Vec<Array> = Vec::with_capacity(p.nodes.len());
    let by_ref = LEAF_FLAGS_BY_REFERENCE.with(|c| c.get());
    for (i, n) in p.nodes.iter().enumerate() {
        let a = match n {
            Node::Leaf { dims, vals, tracked } => {
                let a = arr(dims, vals);
                if by_ref {
                    if *tracked {
                        a.start_tracking();
                        a
                    } else {
                        let a = a.tracked();
                        a.stop_tracking();
                        a
                    }
                } else if *tracked {
                    a.tracked()
                } else {
                    a
                }
            }
            Node::Op { kind, args, post, pre } => {
                for (h, on) in pre {
                    // by reference (start/stop_tracking) or, for some leaves, by value: `w = w.untracked()` /
                    // `w = w.tracked()` re-binds the variable to the same array with the flag changed
                    let by_value = matches!(p.nodes[*h], Node::Leaf { .. }) && (*h + i) % 3 == 0;
                    if by_value {
                        let a = v[*h].clone();
                        v[*h] = if *on { a.tracked() } else { a.untracked() };
                    } else if *on {
                        v[*h].start_tracking();
                    } else {
                        v[*h].stop_tracking();
                    }
                }
                let refs: Vec<&Array> = args.iter().map(|a| &v[*a]).collect();
                let r = kind.apply_corgi(&refs, i);
                match post {
                    Some(true) => r.tracked(),
                    Some(false) => r.untracked(),
                    None => r,
                }
            }
        };
        v.push(a);
    }
    v
}

/// Expected gradient slot contents for node `m` (a base node) after one pass from the root with `seed`:
/// g[j] = sum_k seed[k] * d root[k] / d m[j], by forward mode on the reference, one run per element.
/// Also returns, per element, the absolute-path-sum magnitude sum_k |seed[k]| * sum_paths |local derivatives|
/// ("the terms involved") for the tolerance rule of the smooth class.
pub fn expected_gradient(p: &Program, m: usize, seed: &[f64], root: usize) -> Option<(Vec<f64>, Vec<f64>)> {
    expected_gradient_scaled(p, m, seed, root, !p.is_exact_class())
}

/// as `expected_gradient`; the magnitude scale is computed only when `need_scale` (the caller compares with tolerance)
pub fn expected_gradient_scaled(p: &Program, m: usize, seed: &[f64], root: usize, need_scale: bool) -> Option<(Vec<f64>, Vec<f64>)> {
    let plain = eval_ref_plain(p)?;
    let n = plain.vals[m].v.len();
    let mut g = vec![0.0; n];
    let mut scale = vec![0.0; n];
    let is_leaf = matches!(p.nodes[m], Node::Leaf { .. });
    let exact = !need_scale;
    for j in 0..n {
        let run = if is_leaf {
            eval_ref::<D64>(
                p,
                &|i, d, x| {
                    let mut t: T<D64> = T::from_f64(d, x);
                    if i == m {
                        t.v[j].d = 1.0;
                    }
                    t
                },
                None,
            )?
        } else {
            let f = move |t: &mut T<D64>| t.v[j].d += 1.0;
            eval_ref::<D64>(p, &|_, d, x| T::from_f64(d, x), Some((m, &f)))?
        };
        let out = &run.vals[root];
        g[j] = out.v.iter().zip(seed).map(|(o, sd)| o.d * sd).sum();
        if !exact {
            // forward mode over (value, running error scale): the scale of a derivative covers the terms it is summed from
            // and the amplified rounding of the forward values it is built from
            type DV = Dual<VA>;
            let run = if is_leaf {
                eval_ref::<DV>(
                    p,
                    &|i, d, x| {
                        let mut t: T<DV> = T::from_f64(d, x);
                        if i == m {
                            t.v[j].d = VA { v: 1.0, s: 0.0 };
                        }
                        t
                    },
                    None,
                )?
            } else {
                let f = move |t: &mut T<DV>| t.v[j].d = t.v[j].d + VA { v: 1.0, s: 0.0 };
                eval_ref::<DV>(p, &|_, d, x| T::from_f64(d, x), Some((m, &f)))?
            };
            scale[j] = run.vals[root].v.iter().zip(seed).map(|(o, sd)| (o.d.s + o.d.v.abs()) * sd.abs()).sum();
        } else {
            // not asked for the path sums: the magnitude of the gradient itself is a lower bound of them (it matters
            // when this contribution is later added to ones that are compared with tolerance)
            scale[j] = g[j].abs();
        }
    }
    Some((g, scale))
}

/// Exactness certificate: magnitude shadow of every value and of every gradient any evaluation order can form.
/// Returns the bound (or infinity when the program is outside the exact class).
pub fn shadow_bound(p: &Program, seed: &[f64], root: usize) -> f64 {
    if !p.is_exact_class() {
        return f64::INFINITY;
    }
    // all leaves carry tangent 1: an upper bound of every adjoint partial sum (all shadow factors are >= 1). Evaluated
    // on a copy of the program in which everything is tracked: a tangent cut by an untracked use would hide the
    // adjoints of the interior nodes above the cut, which are formed all the same
    let mut q = p.clone();
    for n in q.nodes.iter_mut() {
        match n {
            Node::Leaf { tracked, .. } => *tracked = true,
            Node::Op { kind, post, pre, .. } => {
                // (the constant result of a derivative-free user operation carries a tangent of its own in the magnitude
                // scalar; tracked in the copy, so that it is not cut off at its first use either)
                *post = if matches!(kind, OpKind::CGate) { Some(true) } else { None };
                pre.clear();
            }
        }
    }
    let p = &q;
    let run = eval_ref::<Dual<Sh>>(
        p,
        &|_, d, x| {
            let mut t: T<Dual<Sh>> = T::from_f64(d, x);
            for e in t.v.iter_mut() {
                e.d = Sh(1.0);
            }
            t
        },
        None,
    );
    let run = match run {
        Some(r) => r,
        None => return f64::INFINITY,
    };
    let mut m = 1.0f64;
    for t in &run.vals {
        for e in &t.v {
            m = m.max(e.v.0);
        }
    }
    let mut g = 0.0;
    for (o, s) in run.vals[root].v.iter().zip(seed) {
        g += o.d.0 * s.abs().max(1.0);
    }
    m.max(g)
}

// ---------------------------------------------------------------------------------------------------------
// random generator

#[derive(Clone, Debug)]
pub struct GenCfg {
    pub max_leaves: usize,
    pub min_ops: usize,
    pub max_ops: usize,
    pub max_rank: usize,
    pub max_dim: usize,
    /// only operations that keep integer data exact
    pub exact_only: bool,
    pub custom_ops: bool,
    pub matmul: bool,
    pub conv: bool,
    /// probability (in 1/8) that a leaf is untracked
    pub untracked_eighths: usize,
    /// allow `.untracked()` / `.tracked()` on intermediates and start/stop_tracking on earlier handles
    pub toggles: bool,
    /// only user-defined operations (every node observable through its derivative closure)
    pub all_custom: bool,
    /// all leaves have the same shape
    pub uniform_shape: bool,
    /// leaf data in {-1,0,1}
    pub unit_values: bool,
    /// largest element count of a node
    pub max_numel: usize,
}

impl GenCfg {
    pub fn exact() -> GenCfg {
        GenCfg {
            max_leaves: 3,
            min_ops: 1,
            max_ops: 8,
            max_rank: 3,
            max_dim: 3,
            exact_only: true,
            custom_ops: true,
            matmul: true,
            conv: true,
            untracked_eighths: 2,
            toggles: false,
            all_custom: false,
            uniform_shape: false,
            unit_values: false,
            max_numel: 200,
        }
    }
    pub fn smooth() -> GenCfg {
        GenCfg { exact_only: false, ..GenCfg::exact() }
    }
}

pub struct GenState {
    pub p: Program,
    pub refv: Vec<T<f64>>,
    pub shadow: Vec<f64>,
    pub flags: Vec<bool>,
}

fn in_range(t: &T<f64>, lo: f64, hi: f64) -> bool {
    t.v.iter().all(|x| *x >= lo && *x <= hi)
}

/// Generate a random straight-line DAG program. Operands are chosen among all earlier nodes with replacement, so
/// fan-out, diamonds and x∘x self-use are the norm. Domain restrictions are decided from actual reference values.
pub fn special_values(r: &mut Rng, dims: &[usize]) -> Vec<f64> {
    let n = numel(dims);
    let last = *dims.last().unwrap_or(&1);
    match r.below(5) {
        0 => vec![0.0; n],
        1 => vec![1.0; n],
        2 => vec![r.int(-3, 3); n],
        3 => {
            // ones where the last two indices agree
            let rows = if dims.len() >= 2 { dims[dims.len() - 2] } else { 1 };
            (0..n).map(|i| if (i / last) % rows == i % last { 1.0 } else { 0.0 }).collect()
        }
        _ => {
            // one-hot rows
            let mut v = vec![0.0; n];
            for row in 0..n / last {
                v[row * last + r.below(last)] = 1.0;
            }
            v
        }
    }
}

pub fn gen_leaves(r: &mut Rng, cfg: &GenCfg) -> GenState {
    let base_rank = r.range(1, cfg.max_rank);
    let base: Vec<usize> = (0..base_rank).map(|_| r.range(1, cfg.max_dim)).collect();
    let base: Vec<usize> = FORCED_BASE.with(|b| b.borrow().clone()).unwrap_or(base);
    let nleaf = r.range(1, cfg.max_leaves);
    let mut st = GenState { p: Program::default(), refv: vec![], shadow: vec![], flags: vec![] };
    let mut any_tracked = false;
    for li in 0..nleaf {
        let rank = r.range(1, base.len());
        let dims: Vec<usize> = if cfg.uniform_shape {
            base.clone()
        } else {
            base[base.len() - rank..].iter().map(|x| if r.chance(1, 4) { 1 } else { *x }).collect()
        };
        let n = numel(&dims);
        let vals: Vec<f64> = if cfg.unit_values {
            (0..n).map(|_| r.int(-1, 1)).collect()
        } else if cfg.exact_only || r.chance(1, 3) {
            (0..n).map(|_| r.int(-3, 3)).collect()
        } else if r.chance(1, 2) {
            (0..n).map(|_| 0.25 * (1 + r.below(16)) as f64).collect()
        } else {
            (0..n).map(|_| 0.25 * r.int(-12, 12)).collect()
        };
        // now and then a leaf with structure a value-dependent shortcut could key on: all zeros, all ones, all equal,
        // identity-like (ones on the diagonal of the last two dimensions), one-hot rows
        let vals: Vec<f64> = if !cfg.unit_values && r.chance(1, 10) { special_values(r, &dims) } else { vals };
        let mut tracked = !r.chance(cfg.untracked_eighths, 8);
        if li == nleaf - 1 && !any_tracked {
            tracked = true;
        }
        any_tracked |= tracked;
        st.p.leaf(&dims, &vals, tracked);
        st.shadow.push(vals.iter().fold(1.0f64, |m, x| m.max(x.abs())));
        st.refv.push(T::from_f64(&dims, &vals));
        st.flags.push(tracked);
    }
    st
}

/// as `gen_program`, every leaf of the given shape
pub fn gen_program_with_base(r: &mut Rng, cfg: &GenCfg, base: &[usize]) -> Program {
    let mut c2 = cfg.clone();
    c2.uniform_shape = true;
    FORCED_BASE.with(|b| *b.borrow_mut() = Some(base.to_vec()));
    let p = gen_program(r, &c2);
    FORCED_BASE.with(|b| *b.borrow_mut() = None);
    p
}
thread_local! {
    static FORCED_BASE: RefCell<Option<Vec<usize>>> = RefCell::new(None);
}

pub fn gen_program(r: &mut Rng, cfg: &GenCfg) -> Program {
    let mut st = gen_leaves(r, cfg);
    let nops = r.range(cfg.min_ops, cfg.max_ops);
    let mut attempts = 0;
    while st.p.n_ops() < nops && attempts < nops * 30 {
        attempts += 1;
        try_add_op(r, cfg, &mut st);
    }
    // half of the programs: make the root depend on every dangling node (sum each to [1] and add them up), so that
    // deep/wide graphs are differentiated as a whole; the other half keeps dead branches, i.e. nodes whose consumers
    // are not part of the differentiated graph
    if r.chance(1, 2) && !cfg.all_custom {
        let n = st.p.nodes.len();
        let mut used = vec![false; n];
        for nd in &st.p.nodes {
            if let Node::Op { args, .. } = nd {
                for a in args {
                    used[*a] = true;
                }
            }
        }
        let dangling: Vec<usize> = (0..n).filter(|i| !used[*i]).collect();
        if dangling.len() > 1 {
            let mut acc: Option<usize> = None;
            for d in dangling {
                let rank = st.refv[d].dims.len();
                let k = OpKind::Sum(rank);
                let t = k.apply_ref(&[&st.refv[d]]).unwrap();
                if !t.max_abs().is_finite() || t.max_abs() > 1e6 {
                    continue;
                }
                st.p.op(k, &[d]);
                st.refv.push(t);
                let s = st.p.nodes.len() - 1;
                acc = Some(match acc {
                    None => s,
                    Some(a) => {
                        let t = OpKind::Add.apply_ref(&[&st.refv[a], &st.refv[s]]).unwrap();
                        st.p.op(OpKind::Add, &[a, s]);
                        st.refv.push(t);
                        st.p.nodes.len() - 1
                    }
                });
            }
        }
    }
    if st.p.n_ops() == 0 {
        // always possible
        let k = OpKind::Neg;
        let t = k.apply_ref(&[&st.refv[0]]).unwrap();
        st.p.op(k, &[0]);
        st.refv.push(t);
    }
    st.p
}

/// tracking flag of every handle after the program text so far
pub fn current_flags(p: &Program) -> Vec<bool> {
    let mut flags = vec![false; p.nodes.len()];
    for (i, node) in p.nodes.iter().enumerate() {
        match node {
            Node::Leaf { tracked, .. } => flags[i] = *tracked,
            Node::Op { kind, args, post, pre } => {
                for (h, on) in pre {
                    flags[*h] = *on;
                }
                let mut f = kind.result_tracked(args.iter().any(|a| flags[*a]));
                if kind.is_alias() {
                    f = flags[args[0]];
                }
                if let Some(b) = post {
                    f = *b;
                }
                flags[i] = f;
            }
        }
    }
    flags
}

fn pick_operand(r: &mut Rng, n: usize) -> usize {
    // half of the time prefer recent nodes (depth), otherwise uniform (sharing)
    if r.chance(1, 2) && n > 2 {
        n - 1 - r.below(n.min(3))
    } else {
        r.below(n)
    }
}

pub fn try_add_op(r: &mut Rng, cfg: &GenCfg, st: &mut GenState) {
    let n = st.p.nodes.len();
    let a = pick_operand(r, n);
    let b = if r.chance(1, 5) { a } else { pick_operand(r, n) };
    let c = pick_operand(r, n);
    let da = st.refv[a].dims.clone();
    let db = st.refv[b].dims.clone();
    let mut cands: Vec<(OpKind, Vec<usize>)> = vec![];
    let compat = bshape(&da, &db).is_some();
    let samea = da == db;
    if cfg.all_custom {
        if samea {
            cands.push((OpKind::CMul, vec![a, b]));
            cands.push((OpKind::CAdd, vec![a, b]));
            if st.refv[c].dims == da {
                cands.push((OpKind::CFma, vec![a, b, c]));
            }
        }
        cands.push((OpKind::CNeg, vec![a]));
        cands.push((OpKind::CCube, vec![a]));
        cands.push((OpKind::CNegF, vec![a]));
        cands.push((OpKind::CNested, vec![a]));
        cands.push((OpKind::CSte, vec![a]));
        if samea {
            cands.push((OpKind::CMulF, vec![a, b]));
            cands.push((OpKind::CLibMul, vec![a, b]));
            let d4 = pick_operand(r, n);
            if st.refv[c].dims == da && st.refv[d4].dims == da {
                cands.push((OpKind::CLib4, vec![a, b, c, d4]));
            }
        }
        // an alias of a user-defined node (same node, shared slot): built-in `sum(0)`, or another handle of it
        if r.chance(1, 3) {
            cands.push((OpKind::Sum(0), vec![a]));
        }
        if cfg.toggles {
            cands.push((OpKind::CloneH, vec![a]));
            cands.push((OpKind::CloneH, vec![a]));
        }
    } else {
        if compat {
            cands.push((OpKind::Add, vec![a, b]));
            cands.push((OpKind::Add, vec![a, b]));
            cands.push((OpKind::Sub, vec![a, b]));
            cands.push((OpKind::Mul, vec![a, b]));
            cands.push((OpKind::Mul, vec![a, b]));
            cands.push((OpKind::Axpy(if cfg.exact_only { r.int(-2, 3) } else { 0.5 }), vec![a, b]));
            if !cfg.exact_only && in_range(&st.refv[b], 0.25, 8.0) {
                cands.push((OpKind::Div, vec![a, b]));
                cands.push((OpKind::Div, vec![a, b]));
            }
        }
        if cfg.toggles {
            cands.push((OpKind::CloneH, vec![a]));
        }
        cands.push((OpKind::Neg, vec![a]));
        cands.push((OpKind::Scale(if cfg.exact_only || r.chance(1, 2) { r.int(-2, 3) } else { 0.5 }), vec![a]));
        cands.push((OpKind::Relu, vec![a]));
        let k = r.below(da.len() + 1);
        cands.push((OpKind::Sum(k), vec![a]));
        cands.push((OpKind::Sum(r.range(1, da.len())), vec![a]));
        {
            let nn = numel(&da);
            let mut opts: Vec<Vec<usize>> = vec![vec![nn], vec![1, nn], vec![nn, 1]];
            for f in 2..nn {
                if nn % f == 0 {
                    opts.push(vec![f, nn / f]);
                }
            }
            cands.push((OpKind::Reshape(r.pick(&opts).clone()), vec![a]));
        }
        if cfg.custom_ops {
            if samea {
                cands.push((OpKind::CMul, vec![a, b]));
                cands.push((OpKind::CAdd, vec![a, b]));
                if st.refv[c].dims == da {
                    cands.push((OpKind::CFma, vec![a, b, c]));
                }
            }
            cands.push((OpKind::CNeg, vec![a]));
            cands.push((OpKind::CCube, vec![a]));
            cands.push((OpKind::CNegF, vec![a]));
            cands.push((OpKind::CNested, vec![a]));
            cands.push((OpKind::CSte, vec![a]));
            // a gate is only taken where both float widths agree on the sign of every element
            if cfg.exact_only || st.refv[a].v.iter().all(|x| x.abs() > 0.05) {
                cands.push((OpKind::CGate, vec![a]));
            }
            if samea {
                cands.push((OpKind::CMulF, vec![a, b]));
                cands.push((OpKind::CComp, vec![a, b]));
                cands.push((OpKind::CLibMul, vec![a, b]));
                let d4 = pick_operand(r, n);
                if st.refv[c].dims == da && st.refv[d4].dims == da {
                    cands.push((OpKind::CLib4, vec![a, b, c, d4]));
                }
            }
        }
        if !cfg.exact_only {
            if in_range(&st.refv[a], 0.25, 8.0) {
                cands.push((OpKind::Powf(*r.pick(&[-2.0, -1.0, -0.5, 0.5, 1.0, 2.0, 3.0, 3.5])), vec![a]));
                cands.push((OpKind::Ln, vec![a]));
                cands.push((OpKind::Recip, vec![a]));
            }
            if in_range(&st.refv[a], -4.0, 4.0) {
                cands.push((OpKind::Exp, vec![a]));
                cands.push((OpKind::Softmax, vec![a]));
            }
            if in_range(&st.refv[a], -30.0, 30.0) {
                cands.push((OpKind::Sigmoid, vec![a]));
            }
        }
        if cfg.matmul && da.len() >= 1 && db.len() >= 1 {
            let ta = r.chance(1, 2);
            let tb = r.chance(1, 2);
            let with_c = r.chance(1, 3);
            let kind = OpKind::Matmul { ta, tb, c: with_c };
            let args = if with_c { vec![a, b, c] } else { vec![a, b] };
            cands.push((kind.clone(), args.clone()));
            cands.push((kind, args));
        }
        if cfg.conv && da.len() >= 3 && db.len() == 4 {
            cands.push((OpKind::Conv { sr: r.range(1, 2), sc: r.range(1, 2) }, vec![a, b]));
            cands.push((OpKind::Conv { sr: r.range(1, 2), sc: r.range(1, 2) }, vec![a, b]));
            cands.push((OpKind::Conv { sr: 1, sc: 1 }, vec![a, b]));
        }
    }
    if cands.is_empty() {
        return;
    }
    // with toggles in play, now and then the previous statement is written again with one of its operands toggled in
    // between (`y - w` ... `y - w` after `w.stop_tracking()`): the same operation on the same buffers, decided anew
    let mut forced_pre: Option<(usize, bool)> = None;
    // (without toggles the previous statement is now and then simply written a second time: two nodes of one kind over
    // the same handles)
    let repeat = if r.chance(1, if cfg.toggles { 6 } else { 14 }) {
        match st.p.nodes.last() {
            Some(Node::Op { kind, args, .. }) if !kind.is_alias() => Some((kind.clone(), args.clone())),
            _ => None,
        }
    } else {
        None
    };
    let (kind, args) = match repeat {
        Some((k, a)) => {
            if cfg.toggles {
                let h = *r.pick(&a);
                let flags = current_flags(&st.p);
                forced_pre = Some((h, !flags[h]));
            }
            (k, a)
        }
        None => r.pick(&cands).clone(),
    };
    // `sum(0)` hands back its operand (today: the same node through a clone). Whether a copy of an UNTRACKED operand
    // that is re-tracked later exposes the operand's own graph is an artefact of that aliasing, not a property: with
    // toggles in play, sum(0) is only applied to operands that are tracked at that moment.
    if kind.is_soft_alias() && cfg.toggles {
        let flags = current_flags(&st.p);
        if !flags[args[0]] {
            return;
        }
    }
    // matmul rank-1 x rank-1 only untransposed; matmul additive term only in the documented forms
    if let OpKind::Matmul { ta, tb, c } = &kind {
        let (ra, rb) = (st.refv[args[0]].dims.len(), st.refv[args[1]].dims.len());
        if ra == 1 && rb == 1 && (*ta || *tb) {
            return;
        }
        if *c {
            let cd = &st.refv[args[2]].dims;
            if cd.len() > 2 {
                return;
            }
            if ra == 1 && rb == 1 && numel(cd) != 1 {
                return;
            }
        }
    }
    let refs: Vec<&T<f64>> = args.iter().map(|x| &st.refv[*x]).collect();
    let t = match kind.apply_ref(&refs) {
        Some(t) => t,
        None => return,
    };
    let mag = t.max_abs();
    if !mag.is_finite() || mag > 1e5 || numel(&t.dims) > cfg.max_numel {
        return;
    }
    if cfg.exact_only {
        // keep shadows small enough that certification usually succeeds
        let sh: f64 = match &kind {
            OpKind::Mul | OpKind::CMul | OpKind::CMulF | OpKind::CLibMul => st.shadow[args[0]] * st.shadow[args[1]],
            OpKind::CComp => st.shadow[args[0]] * st.shadow[args[1]] + st.shadow[args[0]],
            OpKind::CLib4 => st.shadow[args[0]] * st.shadow[args[1]] + st.shadow[args[2]] * st.shadow[args[3]],
            OpKind::CFma => st.shadow[args[0]] * st.shadow[args[1]] + st.shadow[args[2]],
            OpKind::CCube | OpKind::CNested => st.shadow[args[0]].powi(3),
            OpKind::Matmul { .. } | OpKind::Conv { .. } => {
                st.shadow[args[0]] * st.shadow[args[1]] * 30.0 + args.get(2).map(|c| st.shadow[*c]).unwrap_or(0.0)
            }
            OpKind::Sum(_) => st.shadow[args[0]] * numel(&st.refv[args[0]].dims) as f64,
            OpKind::Scale(s) | OpKind::Axpy(s) => st.shadow[args[0]] * s.abs().max(1.0) + args.get(1).map(|c| st.shadow[*c]).unwrap_or(0.0),
            _ => args.iter().map(|x| st.shadow[*x]).sum(),
        };
        if sh > 1e6 {
            return;
        }
        st.shadow.push(sh);
    } else {
        st.shadow.push(mag.max(1.0));
    }
    let mut post = None;
    let mut pre = vec![];
    if cfg.toggles {
        // never on an alias (`sum(0)` hands back the same node through a clone: its flags are the operand's)
        if r.chance(1, 6) && !kind.is_alias() {
            post = Some(r.chance(1, 2));
        }
        if r.chance(1, 6) {
            let h = r.below(n);
            pre.push((h, r.chance(1, 2)));
        }
        // (see above) the operand of a sum(0) must be tracked at the moment of use, toggles of this statement included
        if kind.is_soft_alias() && pre.iter().any(|(h, on)| *h == args[0] && !*on) {
            pre.clear();
        }
        if let Some(fp) = forced_pre {
            pre = vec![fp];
        }
    }
    st.p.nodes.push(Node::Op { kind, args, post, pre });
    st.refv.push(t);
}
