//! Minimal JSON value + serializer (no external crates available offline besides corgi's own deps).

#[derive(Clone, Debug)]
pub enum J {
    Null,
    Bool(bool),
    Int(i64),
    Num(f64),
    Str(String),
    Arr(Vec<J>),
    Obj(Vec<(String, J)>),
}

pub fn esc(s: &str) -> String {
    let mut o = String::with_capacity(s.len() + 2);
    o.push('"');
    for c in s.chars() {
        match c {
            '"' => o.push_str("\\\""),
            '\\' => o.push_str("\\\\"),
            '\n' => o.push_str("\\n"),
            '\r' => o.push_str("\\r"),
            '\t' => o.push_str("\\t"),
            c if (c as u32) < 0x20 => o.push_str(&format!("\\u{:04x}", c as u32)),
            c => o.push(c),
        }
    }
    o.push('"');
    o
}

impl J {
    pub fn s(x: &str) -> J {
        J::Str(x.to_string())
    }
    pub fn obj(kv: Vec<(&str, J)>) -> J {
        J::Obj(kv.into_iter().map(|(k, v)| (k.to_string(), v)).collect())
    }
    pub fn write(&self, out: &mut String, ind: usize) {
        let pad = |n: usize| "  ".repeat(n);
        match self {
            J::Null => out.push_str("null"),
            J::Bool(b) => out.push_str(if *b { "true" } else { "false" }),
            J::Int(i) => out.push_str(&i.to_string()),
            J::Num(x) => {
                if x.is_finite() {
                    let s = format!("{}", x);
                    out.push_str(&s);
                    if !s.contains('.') && !s.contains('e') && !s.contains("inf") {
                        out.push_str(".0");
                    }
                } else {
                    out.push_str("null")
                }
            }
            J::Str(s) => out.push_str(&esc(s)),
            J::Arr(a) => {
                if a.is_empty() {
                    out.push_str("[]");
                    return;
                }
                out.push_str("[\n");
                for (i, v) in a.iter().enumerate() {
                    out.push_str(&pad(ind + 1));
                    v.write(out, ind + 1);
                    if i + 1 < a.len() {
                        out.push(',');
                    }
                    out.push('\n');
                }
                out.push_str(&pad(ind));
                out.push(']');
            }
            J::Obj(o) => {
                if o.is_empty() {
                    out.push_str("{}");
                    return;
                }
                out.push_str("{\n");
                for (i, (k, v)) in o.iter().enumerate() {
                    out.push_str(&pad(ind + 1));
                    out.push_str(&esc(k));
                    out.push_str(": ");
                    v.write(out, ind + 1);
                    if i + 1 < o.len() {
                        out.push(',');
                    }
                    out.push('\n');
                }
                out.push_str(&pad(ind));
                out.push('}');
            }
        }
    }
    pub fn to_string(&self) -> String {
        let mut s = String::new();
        self.write(&mut s, 0);
        s.push('\n');
        s
    }
}
