//! Glue between the harness and the real library: conversions, the flag reader, comparison rules.

use crate::refmodel::T;
use corgi::array::Array;
use corgi::numbers::Float;

#[cfg(feature = "f32")]
pub const IS_F32: bool = true;
#[cfg(not(feature = "f32"))]
pub const IS_F32: bool = false;

/// relative tolerance of the smooth class (scaled by the magnitude of the terms involved)
pub fn tau() -> f64 {
    if IS_F32 {
        2e-5
    } else {
        1e-9
    }
}
/// bound under which integer arithmetic is exact in the float type of this build
pub fn exact_bound() -> f64 {
    if IS_F32 {
        (1u64 << 22) as f64
    } else {
        (1u64 << 50) as f64
    }
}

pub fn tf(v: &[f64]) -> Vec<Float> {
    v.iter().map(|x| *x as Float).collect()
}
pub fn arr(dims: &[usize], v: &[f64]) -> Array {
    Array::from((dims.to_vec(), tf(v)))
}
pub fn arr_t<S: crate::refmodel::Sc>(t: &T<S>) -> Array {
    arr(&t.dims, &t.vals())
}
pub fn vals(a: &Array) -> Vec<f64> {
    a.values().iter().map(|x| *x as f64).collect()
}
pub fn bits(a: &Array) -> Vec<u64> {
    a.values().iter().map(|x| (*x as f64).to_bits()).collect()
}
pub fn to_t(a: &Array) -> T<f64> {
    T { dims: a.dimensions().to_vec(), v: vals(a) }
}

/// Flag reader through the public API only.
pub fn is_tracked(a: &Array) -> bool {
    let t = a.stop_tracking();
    if t {
        a.start_tracking();
    }
    t
}

pub fn grad_of(a: &Array) -> Option<(Vec<usize>, Vec<f64>)> {
    a.gradient().as_ref().map(|g| (g.dimensions().to_vec(), vals(g)))
}

#[derive(Clone, Copy, Debug, PartialEq)]
pub enum Rule {
    /// bit-identical (after widening to f64); -0.0 and 0.0 are considered equal
    Exact,
    /// |got - want| <= tau * scale
    Tol(f64),
}

/// Compare an observed array against the reference. Returns a short failure kind + detail.
pub fn compare(got_dims: &[usize], got: &[f64], want: &T<f64>, rule: Rule) -> Result<f64, (String, String)> {
    if got_dims != &want.dims[..] {
        return Err(("dims".into(), format!("dims {:?} want {:?}", got_dims, want.dims)));
    }
    if got.len() != want.v.len() {
        return Err(("len".into(), format!("len {} want {}", got.len(), want.v.len())));
    }
    let mut worst = 0.0f64;
    for (i, (g, w)) in got.iter().zip(&want.v).enumerate() {
        let ok = match rule {
            Rule::Exact => g == w || (g.is_nan() && w.is_nan()),
            Rule::Tol(scale) => {
                let e = (g - w).abs();
                let rel = e / (tau() * scale.max(1.0));
                if rel.is_finite() && rel > worst {
                    worst = rel;
                }
                e <= tau() * scale.max(1.0) && g.is_finite()
            }
        };
        if !ok {
            return Err((
                "values".into(),
                format!("element {} got {:?} want {:?}; got {} want {}", i, g, w, short(got), short(&want.v)),
            ));
        }
    }
    Ok(worst)
}

/// Element-wise *relative* comparison for point-wise functions: every output element is one scalar function value, so
/// its error must be small relative to that element itself (not to the largest element of the array).
pub fn compare_rel(got_dims: &[usize], got: &[f64], want: &T<f64>) -> Result<f64, (String, String)> {
    if got_dims != &want.dims[..] {
        return Err(("dims".into(), format!("dims {:?} want {:?}", got_dims, want.dims)));
    }
    let floor = if IS_F32 { f32::MIN_POSITIVE as f64 } else { f64::MIN_POSITIVE };
    let mut worst = 0.0f64;
    for (i, (g, w)) in got.iter().zip(&want.v).enumerate() {
        let tol = tau() * w.abs() + floor;
        let e = (g - w).abs();
        if e.is_finite() {
            worst = worst.max(e / tol);
        }
        if !(e <= tol) && !(g.is_nan() && w.is_nan()) && !(g == w) {
            return Err(("values".into(), format!("element {} got {:e} want {:e} (relative error {:e}); got {} want {}", i, g, w, e / w.abs(), short(got), short(&want.v))));
        }
    }
    Ok(worst)
}

pub fn short(v: &[f64]) -> String {
    if v.len() <= 24 {
        format!("{:?}", v)
    } else {
        format!("{:?}...({} elements)", &v[..24], v.len())
    }
}

pub fn shape_class(d: &[usize]) -> String {
    let units = d.iter().filter(|x| **x == 1).count();
    format!("r{}{}", d.len(), if units == 0 { "" } else if units == d.len() { "-allunit" } else { "-unit" })
}
