//! Allocation ledger monitor (filled in later).
