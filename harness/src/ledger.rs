//! Allocation ledger monitor: the harness' global allocator wraps `System` and counts live blocks and bytes.
//! Conservation (live after dropping == live before building) is checked at quiescent points by C14/C18.
//! Compiled out (`--no-default-features`) for the valgrind / LSan stages, which must see the plain allocator and
//! must not be confused by an address-remembering monitor.

#[cfg(feature = "ledger")]
mod imp {
    use std::alloc::{GlobalAlloc, Layout, System};
    use std::sync::atomic::{AtomicIsize, Ordering::Relaxed};

    pub struct Ledger;
    static LIVE_BYTES: AtomicIsize = AtomicIsize::new(0);
    static LIVE_BLOCKS: AtomicIsize = AtomicIsize::new(0);

    unsafe impl GlobalAlloc for Ledger {
        unsafe fn alloc(&self, l: Layout) -> *mut u8 {
            let p = System.alloc(l);
            if !p.is_null() {
                LIVE_BYTES.fetch_add(l.size() as isize, Relaxed);
                LIVE_BLOCKS.fetch_add(1, Relaxed);
            }
            p
        }
        unsafe fn alloc_zeroed(&self, l: Layout) -> *mut u8 {
            let p = System.alloc_zeroed(l);
            if !p.is_null() {
                LIVE_BYTES.fetch_add(l.size() as isize, Relaxed);
                LIVE_BLOCKS.fetch_add(1, Relaxed);
            }
            p
        }
        unsafe fn dealloc(&self, p: *mut u8, l: Layout) {
            LIVE_BYTES.fetch_sub(l.size() as isize, Relaxed);
            LIVE_BLOCKS.fetch_sub(1, Relaxed);
            System.dealloc(p, l)
        }
        unsafe fn realloc(&self, p: *mut u8, l: Layout, n: usize) -> *mut u8 {
            let q = System.realloc(p, l, n);
            if !q.is_null() {
                LIVE_BYTES.fetch_add(n as isize - l.size() as isize, Relaxed);
            }
            q
        }
    }

    #[global_allocator]
    static GLOBAL: Ledger = Ledger;

    pub fn live() -> (isize, isize) {
        (LIVE_BLOCKS.load(Relaxed), LIVE_BYTES.load(Relaxed))
    }
    pub const ENABLED: bool = true;
}

#[cfg(not(feature = "ledger"))]
mod imp {
    pub fn live() -> (isize, isize) {
        (0, 0)
    }
    pub const ENABLED: bool = false;
}

pub use imp::{live, ENABLED};
