#![allow(dead_code)]
//! cvh - corgi verification harness.
//!
//!   cvh run <ID> <quick|thorough> [--extra-report F]...   parent: shards workers, merges, writes evidence, verdict
//!   cvh worker <ID> <tier> <seed> <shard> <nshards> <outdir> [--check CHK] [--meta]
//!   cvh replay <file>
//!   cvh list

mod cg;
mod checks;
mod ctx;
mod history;
mod json;
mod ledger;
mod monitors;
mod nn;
mod program;
mod refmodel;
mod rng;

use checks::{find_check, CheckDef};
use ctx::{Ctx, Tier};
use json::J;
use std::collections::BTreeMap;
use std::io::Write;
use std::path::{Path, PathBuf};
use std::process::{Command, Stdio};
use std::time::{Duration, Instant};

fn verif_root() -> PathBuf {
    std::env::var("VERIF_ROOT").map(PathBuf::from).unwrap_or_else(|_| PathBuf::from("/verif"))
}

fn main() {
    let args: Vec<String> = std::env::args().collect();
    let code = match args.get(1).map(|s| s.as_str()) {
        Some("run") => cmd_run(&args[2..]),
        Some("worker") => {
            // deep graphs recurse in the library's backward pass: give the worker a large stack
            let a = args[2..].to_vec();
            // parameters come through argv (Miri does not reliably see the shell environment)
            let argval = |name: &str| a.iter().position(|x| x == name).and_then(|i| a.get(i + 1)).and_then(|v| v.parse::<usize>().ok());
            let mb: usize = argval("--stack-mb").or_else(|| std::env::var("CVH_STACK_MB").ok().and_then(|s| s.parse().ok())).unwrap_or(1024);
            let h = std::thread::Builder::new().stack_size(mb << 20).spawn(move || cmd_worker(&a)).unwrap();
            h.join().unwrap_or(4)
        }
        Some("replay") => {
            let a = args[2..].to_vec();
            let h = std::thread::Builder::new().stack_size(1 << 30).spawn(move || cmd_replay(&a)).unwrap();
            h.join().unwrap_or(4)
        }
        Some("deepchain") => {
            // probe run in its own process: a chain of `depth` multiplications on a thread with a `stack-mb` MiB stack
            let depth: usize = args[2].parse().unwrap_or(1000);
            let mb: usize = args[3].parse().unwrap_or(8);
            let mode = args.get(4).cloned().unwrap_or_else(|| "backward".into());
            let h = std::thread::Builder::new()
                .stack_size(mb << 20)
                .spawn(move || {
                    use corgi::array::Array;
                    let a = cg::arr(&[2], &[1.0, -1.0]).tracked();
                    let one = cg::arr(&[2], &[1.0, 1.0]);
                    let mut c: Array = &a * &one;
                    for _ in 0..depth {
                        c = &c * &one;
                    }
                    println!("built");
                    if mode == "backward" {
                        c.backward(None);
                        println!("backward-done");
                        let g = cg::grad_of(&a);
                        if g != Some((vec![2], vec![1.0, 1.0])) {
                            println!("WRONG-GRADIENT {:?}", g);
                            return 5;
                        }
                        // the release of the graph is C18's business (probe mode "drop"): leave it to process exit
                        std::mem::forget(c);
                        println!("dropped");
                        println!("OK gradient");
                        return 0;
                    }
                    drop(c);
                    println!("dropped");
                    let v: Vec<corgi::numbers::Float> = Vec::from(a);
                    println!("OK {}", v.len());
                    0
                })
                .unwrap();
            h.join().unwrap_or(4)
        }
        Some("families") => {
            for c in checks::all() {
                let q = (c.families)(Tier::Quick);
                let t = (c.families)(Tier::Thorough);
                let cell = |v: &Vec<(&'static str, u64)>| v.iter().map(|(f, n)| format!("{} {}", f, n)).collect::<Vec<_>>().join(", ");
                if c.id == "C19" {
                    println!("| {} | the families of C01-C07, C09-C17 ({} case indices) | a tenth of their thorough sizes ({} case indices) |", c.id, q.iter().map(|x| x.1).sum::<u64>(), t.iter().map(|x| x.1).sum::<u64>());
                } else {
                    println!("| {} | {} | {} |", c.id, cell(&q), cell(&t));
                }
            }
            0
        }
        Some("list") => {
            for c in checks::all() {
                println!("{}", c.id);
            }
            0
        }
        _ => {
            eprintln!("usage: cvh run|worker|replay|list ...");
            2
        }
    };
    // return normally on success so that leak checkers (Miri, LSan) run their exit-time checks
    if code != 0 {
        std::process::exit(code);
    }
}

static LIMIT: std::sync::OnceLock<Option<u64>> = std::sync::OnceLock::new();

fn run_cases(def: &CheckDef, ctx: &mut Ctx, shard: u64, nshards: u64, progress: Option<&Path>) {
    let fams = (def.families)(ctx.tier);
    // sanitizer stages run a prefix of every family (orders of magnitude slower per case)
    let limit: Option<u64> = LIMIT.get().copied().flatten().or_else(|| std::env::var("CVH_LIMIT").ok().and_then(|s| s.parse().ok()));
    if std::env::var("CVH_DEBUG").is_ok() {
        eprintln!("run_cases: limit={:?} shard={}/{} families={:?}", limit, shard, nshards, fams);
    }
    for (fam, count) in fams {
        let count = limit.map_or(count, |l| count.min(l));
        for k in 0..count {
            if k % nshards != shard {
                continue;
            }
            if let Some(p) = progress {
                let _ = std::fs::write(p, format!("{}\t{}\n", fam, k));
            }
            run_one(def, ctx, fam, k);
        }
    }
    if let Some(p) = progress {
        let _ = std::fs::write(p, "done\n");
    }
}

fn run_one(def: &CheckDef, ctx: &mut Ctx, fam: &str, k: u64) {
    ctx.family = fam.to_string();
    ctx.k = k;
    let mut rng = rng::Rng::for_case(ctx.seed, def.id, fam, k);
    let r = ctx::guard(|| (def.run_case)(ctx, fam, k, &mut rng));
    if let Err(msg) = r {
        // a panic that escaped the check's own guards is a harness error, never a violation
        if ctx.harness_errors.len() < 20 {
            ctx.harness_errors.push(format!("{} {}#{}: {}", def.id, fam, k, msg));
        }
        ctx.count("harness_panics", 1);
    }
}

fn cmd_worker(a: &[String]) -> i32 {
    ctx::install_panic_hook();
    let id = &a[0];
    let tier = Tier::parse(&a[1]).expect("tier");
    let seed: u64 = a[2].parse().expect("seed");
    let shard: u64 = a[3].parse().expect("shard");
    let nshards: u64 = a[4].parse().expect("nshards");
    let outdir = PathBuf::from(&a[5]);
    let mut label = id.clone();
    let mut meta = false;
    let mut i = 6;
    while i < a.len() {
        match a[i].as_str() {
            "--label" => {
                label = a[i + 1].clone();
                i += 1;
            }
            "--meta" => meta = true,
            "--limit" => {
                let _ = LIMIT.set(a[i + 1].parse().ok());
                i += 1;
            }
            "--stack-mb" => i += 1,
            _ => {}
        }
        i += 1;
    }
    let def = match find_check(id) {
        Some(d) => d,
        None => {
            eprintln!("unknown check {}", id);
            return 2;
        }
    };
    let mut ctx = Ctx::new(&label, tier, seed);
    if meta {
        ctx.meta = Some(vec![]);
    }
    let progress = outdir.join(format!("progress.{}.{}", label, shard));
    run_cases(def, &mut ctx, shard, nshards, Some(&progress));
    let rep = outdir.join(format!("report.{}.{}", label, shard));
    std::fs::write(&rep, ctx.to_report()).expect("write report");
    if let Some(m) = &ctx.meta {
        std::fs::write(outdir.join(format!("meta.{}.{}", label, shard)), m.join("\n") + "\n").expect("write meta");
    }
    0
}

struct KnownFindings {
    open: Vec<(String, String, String)>, // property, signature, text
    fixed: Vec<String>,
}

fn load_known() -> KnownFindings {
    let mut k = KnownFindings { open: vec![], fixed: vec![] };
    let p = verif_root().join("known_findings.txt");
    if let Ok(t) = std::fs::read_to_string(p) {
        for line in t.lines() {
            let line = line.trim();
            if let Some(rest) = line.strip_prefix("open:") {
                // open: property=<id> signature=<sig> <what fails>
                let rest = rest.trim();
                let mut prop = String::new();
                let mut sig = String::new();
                let mut text = vec![];
                for tok in rest.split_whitespace() {
                    if let Some(v) = tok.strip_prefix("property=") {
                        prop = v.to_string();
                    } else if let Some(v) = tok.strip_prefix("signature=") {
                        sig = v.to_string();
                    } else {
                        text.push(tok);
                    }
                }
                k.open.push((prop, sig, text.join(" ")));
            } else if line.starts_with("fixed:") {
                k.fixed.push(line.to_string());
            }
        }
    }
    k
}

fn cmd_run(a: &[String]) -> i32 {
    let start = Instant::now();
    let id = a[0].clone();
    let tier = Tier::parse(a.get(1).map(|s| s.as_str()).unwrap_or("quick")).expect("tier");
    let seed: u64 = std::env::var("VERIF_SEED").ok().and_then(|s| s.parse().ok()).unwrap_or(1);
    let mut extra_reports: Vec<PathBuf> = vec![];
    let mut i = 2;
    while i < a.len() {
        if a[i] == "--extra-report" {
            extra_reports.push(PathBuf::from(&a[i + 1]));
            i += 1;
        }
        i += 1;
    }
    let def = match find_check(&id) {
        Some(d) => d,
        None => {
            println!("INCONCLUSIVE property={} reason=unknown-check", id);
            return 3;
        }
    };
    let root = verif_root();
    let tmp = root.join("tmp").join(format!("{}-{}-{}", id, tier.name(), std::process::id()));
    let _ = std::fs::remove_dir_all(&tmp);
    std::fs::create_dir_all(&tmp).expect("tmp dir");
    let nshards: u64 = std::env::var("VERIF_SHARDS").ok().and_then(|s| s.parse().ok()).unwrap_or(16);
    let exe = std::env::current_exe().expect("exe");
    let exe32 = std::env::var("CVH_BIN_F32").ok();

    // worker plans: (binary, check id, label, meta?)
    let mut plans: Vec<(PathBuf, String, String, bool)> = vec![];
    if def.id == "C19" {
        // the f32 build runs the C01-C07 monitors; the f64 build produces the metadata log to compare with
        match &exe32 {
            Some(p) => {
                plans.push((PathBuf::from(p), "C19".into(), "C19".into(), true));
                plans.push((exe.clone(), "C19".into(), "C19ref".into(), true));
            }
            None => {
                println!("INCONCLUSIVE property=C19 reason=no-f32-binary (CVH_BIN_F32 unset)");
                return 3;
            }
        }
    } else {
        plans.push((exe.clone(), def.id.to_string(), def.id.to_string(), false));
    }

    // generous wall-clock watchdog (its firing is INCONCLUSIVE, never a violation); mutation trials shorten it
    let watchdog = Duration::from_secs(std::env::var("CVH_WATCHDOG_S").ok().and_then(|v| v.parse().ok()).unwrap_or(match tier {
        Tier::Quick => 900,
        Tier::Thorough => 4 * 3600,
    }));
    let mut inconclusive: Vec<String> = vec![];
    let mut crashed: Vec<(String, String)> = vec![]; // (label, progress)
    for (bin, chk, label, meta) in &plans {
        let mut children = vec![];
        for s in 0..nshards {
            let mut c = Command::new(bin);
            c.arg("worker")
                .arg(chk)
                .arg(tier.name())
                .arg(seed.to_string())
                .arg(s.to_string())
                .arg(nshards.to_string())
                .arg(&tmp)
                .arg("--label")
                .arg(label);
            if *meta {
                c.arg("--meta");
            }
            c.stdout(Stdio::null()).stderr(Stdio::inherit());
            match c.spawn() {
                Ok(ch) => children.push((s, ch)),
                Err(e) => inconclusive.push(format!("spawn-failed:{}", e)),
            }
        }
        let t0 = Instant::now();
        for (s, mut ch) in children {
            loop {
                match ch.try_wait() {
                    Ok(Some(st)) => {
                        if !st.success() {
                            let prog = std::fs::read_to_string(tmp.join(format!("progress.{}.{}", label, s)))
                                .unwrap_or_default();
                            let prog = prog.trim().to_string();
                            if prog.is_empty() || prog == "done" {
                                inconclusive.push(format!("worker-{}-{}-died-outside-case:{:?}", label, s, st));
                            } else {
                                crashed.push((label.clone(), format!("{}\t{:?}", prog, st)));
                            }
                        }
                        break;
                    }
                    Ok(None) => {
                        if t0.elapsed() > watchdog {
                            let _ = ch.kill();
                            let _ = ch.wait();
                            inconclusive.push(format!("watchdog-{}-{}", label, s));
                            break;
                        }
                        std::thread::sleep(Duration::from_millis(20));
                    }
                    Err(e) => {
                        inconclusive.push(format!("wait-failed:{}", e));
                        break;
                    }
                }
            }
        }
    }

    // merge
    let mut ctx = Ctx::new(def.id, tier, seed);
    for (_, _, label, _) in &plans {
        if label.ends_with("ref") {
            continue;
        }
        for s in 0..nshards {
            let p = tmp.join(format!("report.{}.{}", label, s));
            match std::fs::read_to_string(&p) {
                Ok(t) => ctx.merge_report(&t),
                Err(_) => {
                    if !crashed.iter().any(|(l, _)| l == label) {
                        inconclusive.push(format!("missing-report-{}-{}", label, s));
                    }
                }
            }
        }
    }
    for p in &extra_reports {
        match std::fs::read_to_string(p) {
            Ok(t) => ctx.merge_report(&t),
            Err(e) => inconclusive.push(format!("extra-report-unreadable:{}:{}", p.display(), e)),
        }
    }
    // a worker that died inside a library call on an in-domain case: violation with the case as witness
    for (label, prog) in &crashed {
        let parts: Vec<&str> = prog.split('\t').collect();
        ctx.violation_count += 1;
        let sig = format!("{}|{}|process-died-in-case", def.id, parts.first().unwrap_or(&"?"));
        *ctx.sig_counts.entry(sig.clone()).or_insert(0) += 1;
        ctx.violations.push(ctx::Violation {
            sig,
            family: parts.first().unwrap_or(&"?").to_string(),
            k: parts.get(1).and_then(|s| s.parse().ok()).unwrap_or(0),
            detail: format!("worker {} died (stack overflow / abort) while running this case: {}", label, prog),
        });
    }
    // C19: metadata logs of the two builds must be identical
    if def.id == "C19" {
        let mut diffs = 0u64;
        let mut lines = 0u64;
        for s in 0..nshards {
            let a = std::fs::read_to_string(tmp.join(format!("meta.C19.{}", s))).unwrap_or_default();
            let b = std::fs::read_to_string(tmp.join(format!("meta.C19ref.{}", s))).unwrap_or_default();
            let la: Vec<&str> = a.lines().collect();
            let lb: Vec<&str> = b.lines().collect();
            lines += la.len() as u64;
            if la.len() != lb.len() {
                inconclusive.push(format!("meta-log-length-differs-shard-{}:{}-vs-{}", s, la.len(), lb.len()));
            }
            for (x, y) in la.iter().zip(lb.iter()) {
                if x != y {
                    diffs += 1;
                    let key = x.split(' ').next().unwrap_or("");
                    let (fam, k) = key.split_once('#').unwrap_or((key, "0"));
                    let chk = fam.split(':').next().unwrap_or("");
                    let sig = format!("C19|{}|metadata-differs-between-f64-and-f32", chk);
                    ctx.violation_count += 1;
                    *ctx.sig_counts.entry(sig.clone()).or_insert(0) += 1;
                    if ctx.violations.len() < 50 {
                        ctx.violations.push(ctx::Violation {
                            sig,
                            family: fam.to_string(),
                            k: k.parse().unwrap_or(0),
                            detail: format!("f32: {}\nf64: {}", x, y),
                        });
                    }
                }
            }
        }
        ctx.count("metadata_lines_compared", lines);
        ctx.count("metadata_differences", diffs);
    }
    if !ctx.harness_errors.is_empty() {
        inconclusive.push(format!("harness-errors:{}", ctx.harness_errors.len()));
    }
    // minimum-observation floors: fail closed to inconclusive
    for (name, min) in (def.floors)(tier) {
        let have = if name == "evaluations" {
            ctx.evaluations
        } else if name == "distinct_nontrivial" {
            ctx.distinct.len() as u64
        } else {
            *ctx.counters.get(name).unwrap_or(&0)
        };
        if have < min && crashed.is_empty() {
            inconclusive.push(format!("floor:{}={}<{}", name, have, min));
        }
    }

    // known findings
    let known = load_known();
    let mut known_hit: BTreeMap<String, (String, u64)> = BTreeMap::new();
    let mut unlisted: Vec<&ctx::Violation> = vec![];
    let mut unlisted_count = 0u64;
    for (sig, n) in &ctx.sig_counts {
        if let Some((_, _, text)) = known.open.iter().find(|(p, s, _)| p == def.id && s == sig) {
            known_hit.insert(sig.clone(), (text.clone(), *n));
        } else {
            unlisted_count += n;
        }
    }
    {
        // one witness per signature first, then the rest
        let mut seen: std::collections::BTreeSet<&str> = Default::default();
        let mut rest = vec![];
        for v in &ctx.violations {
            if known_hit.contains_key(&v.sig) {
                continue;
            }
            if seen.insert(v.sig.as_str()) {
                unlisted.push(v);
            } else {
                rest.push(v);
            }
        }
        unlisted.extend(rest);
    }

    // replay files for unlisted violations
    let replay_dir = root.join("replays");
    let mut replay_paths = vec![];
    if !unlisted.is_empty() {
        let _ = std::fs::create_dir_all(&replay_dir);
        for (n, v) in unlisted.iter().enumerate().take(60) {
            let p = replay_dir.join(format!("{}-{}-s{}-{}.replay", def.id, tier.name(), seed, n));
            let chk = if def.id == "C19" { "C19" } else { def.id };
            let text = format!(
                "property={}\ncheck={}\nfamily={}\nk={}\nseed={}\ntier={}\nbuild={}\nsignature={}\n--- detail\n{}\n",
                def.id,
                chk,
                v.family,
                v.k,
                seed,
                tier.name(),
                if def.id == "C19" { "f32" } else { "f64" },
                v.sig,
                v.detail
            );
            if std::fs::write(&p, text).is_ok() {
                replay_paths.push((p, v.sig.clone()));
            }
        }
    }

    let wall = start.elapsed().as_secs_f64();
    // evidence
    let mut cov: Vec<(String, J)> = vec![];
    cov.push(("evaluations".into(), J::Int(ctx.evaluations as i64)));
    cov.push(("distinct_nontrivial".into(), J::Int(ctx.distinct.len() as i64)));
    cov.push(("rule".into(), J::s(def.rule)));
    cov.push(("samples".into(), J::Arr(ctx.samples.iter().map(|s| J::s(s)).collect())));
    if let Some(e) = (def.exhaustive)(tier) {
        cov.push(("exhaustive".into(), J::Bool(true)));
        cov.push(("exhaustive_scope".into(), J::s(e)));
    }
    cov.push(("counters".into(), J::Obj(ctx.counters.iter().map(|(k, v)| (k.clone(), J::Int(*v as i64))).collect())));
    cov.push((
        "histograms".into(),
        J::Obj(
            ctx.hists
                .iter()
                .map(|(h, m)| (h.clone(), J::Obj(m.iter().map(|(k, v)| (k.clone(), J::Int(*v as i64))).collect())))
                .collect(),
        ),
    ));
    cov.push((
        "max_normalised_error".into(),
        J::Obj(ctx.fmax.iter().map(|(k, v)| (k.clone(), J::Num(*v))).collect()),
    ));
    cov.push(("shards".into(), J::Int(nshards as i64)));
    cov.push((
        "violation_signatures".into(),
        J::Obj(ctx.sig_counts.iter().map(|(k, v)| (k.clone(), J::Int(*v as i64))).collect()),
    ));
    cov.push((
        "known_findings_matched".into(),
        J::Arr(known_hit.iter().map(|(s, (t, n))| J::s(&format!("{} x{} {}", s, n, t))).collect()),
    ));
    cov.push(("inconclusive_reasons".into(), J::Arr(inconclusive.iter().map(|s| J::s(s)).collect())));
    cov.push(("harness_errors".into(), J::Arr(ctx.harness_errors.iter().take(10).map(|s| J::s(s)).collect())));
    let verdict = if unlisted_count > 0 {
        "violated"
    } else if !inconclusive.is_empty() {
        "inconclusive"
    } else {
        "held-on-observed"
    };
    cov.push(("verdict".into(), J::s(verdict)));
    let ev = J::Obj(vec![
        ("property_id".into(), J::s(def.id)),
        ("tier".into(), J::s(tier.name())),
        ("seed".into(), J::Int(seed as i64)),
        ("level".into(), J::s("exploration")),
        ("coverage".into(), J::Obj(cov)),
        ("assumptions".into(), J::Arr(def.assumptions.iter().map(|s| J::s(s)).collect())),
        ("wall_s".into(), J::Num((wall * 1000.0).round() / 1000.0)),
        ("violations".into(), J::Int(unlisted_count as i64)),
    ]);
    let evdir = root.join("evidence");
    let _ = std::fs::create_dir_all(&evdir);
    let evpath = evdir.join(format!("{}.json", def.id));
    let mut f = std::fs::File::create(&evpath).expect("evidence file");
    f.write_all(ev.to_string().as_bytes()).expect("write evidence");

    println!(
        "{} {} seed={} evaluations={} distinct_nontrivial={} violations={} wall={:.1}s",
        def.id,
        tier.name(),
        seed,
        ctx.evaluations,
        ctx.distinct.len(),
        ctx.violation_count,
        wall
    );
    for (sig, (text, n)) in &known_hit {
        println!("KNOWN-FINDING: property={} {} (signature {} observed {} times)", def.id, text, sig, n);
    }
    let _ = std::fs::remove_dir_all(&tmp);
    if unlisted_count > 0 {
        let mut by_sig: BTreeMap<String, u64> = BTreeMap::new();
        for (s, n) in &ctx.sig_counts {
            if !known_hit.contains_key(s) {
                by_sig.insert(s.clone(), *n);
            }
        }
        for (s, n) in by_sig.iter().take(40) {
            println!("  signature {} x{}", s, n);
        }
        if by_sig.len() > 40 {
            println!("  ... and {} more signatures (all listed in the evidence file)", by_sig.len() - 40);
        }
        if replay_paths.is_empty() {
            println!("VIOLATION property={} replay={}", def.id, evpath.display());
        }
        for (p, sig) in replay_paths.iter().take(12) {
            println!("VIOLATION property={} replay={} signature={}", def.id, p.display(), sig);
        }
        if replay_paths.len() > 12 {
            println!("  ... {} more replay files under {}", replay_paths.len() - 12, replay_dir.display());
        }
        return 1;
    }
    if !inconclusive.is_empty() {
        println!("INCONCLUSIVE property={} reason={}", def.id, inconclusive.join(","));
        return 3;
    }
    0
}

fn cmd_replay(a: &[String]) -> i32 {
    ctx::install_panic_hook();
    let text = match std::fs::read_to_string(&a[0]) {
        Ok(t) => t,
        Err(e) => {
            eprintln!("cannot read {}: {}", a[0], e);
            return 2;
        }
    };
    let mut kv: BTreeMap<String, String> = BTreeMap::new();
    for line in text.lines() {
        if line.starts_with("--- detail") {
            break;
        }
        if let Some((k, v)) = line.split_once('=') {
            kv.insert(k.to_string(), v.to_string());
        }
    }
    let get = |k: &str| kv.get(k).cloned().unwrap_or_default();
    let want_f32 = get("build") == "f32";
    if want_f32 != cg::IS_F32 {
        if let Ok(p) = std::env::var(if want_f32 { "CVH_BIN_F32" } else { "CVH_BIN_F64" }) {
            let st = Command::new(p).arg("replay").arg(&a[0]).status();
            return st.ok().and_then(|s| s.code()).unwrap_or(3);
        }
        eprintln!("replay needs the {} build", get("build"));
        return 3;
    }
    let def = match find_check(&get("check")) {
        Some(d) => d,
        None => {
            eprintln!("unknown check {}", get("check"));
            return 2;
        }
    };
    let tier = Tier::parse(&get("tier")).unwrap_or(Tier::Quick);
    let seed: u64 = get("seed").parse().unwrap_or(1);
    let mut ctx = Ctx::new(&get("property"), tier, seed);
    ctx.verbose = true;
    ctx.max_samples = 100;
    let fam = get("family");
    let k: u64 = get("k").parse().unwrap_or(0);
    // family names are 'static in the registry: find the matching one
    let fams = (def.families)(tier);
    let fam_static = fams.iter().map(|(f, _)| *f).find(|f| *f == fam);
    match fam_static {
        Some(f) => run_one(def, &mut ctx, f, k),
        None => {
            eprintln!("unknown family {}", fam);
            return 2;
        }
    }
    println!("replayed {} {}#{} seed={} tier={}: {} violation(s)", get("property"), fam, k, seed, tier.name(), ctx.violation_count);
    for s in &ctx.samples {
        println!("  case: {}", s);
    }
    for v in &ctx.violations {
        println!("  signature={}\n  {}", v.sig, v.detail.replace('\n', "\n  "));
    }
    for e in &ctx.harness_errors {
        println!("  harness error: {}", e);
    }
    if ctx.violation_count > 0 {
        println!("VIOLATION property={} replay={}", get("property"), a[0]);
        1
    } else {
        0
    }
}
