//! Deterministic PRNG (splitmix64). No dependence on hash-map iteration order or time anywhere.

#[derive(Clone, Debug)]
pub struct Rng(pub u64);

pub fn mix(mut z: u64) -> u64 {
    z = (z ^ (z >> 30)).wrapping_mul(0xBF58476D1CE4E5B9);
    z = (z ^ (z >> 27)).wrapping_mul(0x94D049BB133111EB);
    z ^ (z >> 31)
}

/// FNV-1a over bytes, then mixed; used for structural hashes and for deriving case seeds from strings.
pub fn hash_str(s: &str) -> u64 {
    let mut h: u64 = 0xcbf29ce484222325;
    for b in s.as_bytes() {
        h ^= *b as u64;
        h = h.wrapping_mul(0x100000001b3);
    }
    mix(h)
}

impl Rng {
    pub fn new(seed: u64) -> Rng {
        Rng(mix(seed ^ 0x9E3779B97F4A7C15))
    }
    /// Seed for one case: a pure function of (run seed, property, family, case index).
    pub fn for_case(seed: u64, prop: &str, family: &str, k: u64) -> Rng {
        let h = mix(seed.wrapping_mul(0x2545F4914F6CDD1D) ^ hash_str(prop)) ^ hash_str(family).rotate_left(17);
        Rng(mix(h ^ mix(k.wrapping_add(0x632BE59BD9B4E019))))
    }
    pub fn next(&mut self) -> u64 {
        self.0 = self.0.wrapping_add(0x9E3779B97F4A7C15);
        mix(self.0)
    }
    pub fn below(&mut self, n: usize) -> usize {
        debug_assert!(n > 0);
        (self.next() % n as u64) as usize
    }
    /// inclusive range
    pub fn range(&mut self, lo: usize, hi: usize) -> usize {
        lo + self.below(hi - lo + 1)
    }
    pub fn chance(&mut self, num: usize, den: usize) -> bool {
        self.below(den) < num
    }
    pub fn int(&mut self, lo: i64, hi: i64) -> f64 {
        (lo + self.below((hi - lo + 1) as usize) as i64) as f64
    }
    pub fn pick<'a, T>(&mut self, xs: &'a [T]) -> &'a T {
        &xs[self.below(xs.len())]
    }
    pub fn shuffle<T>(&mut self, xs: &mut [T]) {
        for i in (1..xs.len()).rev() {
            let j = self.below(i + 1);
            xs.swap(i, j);
        }
    }
}
