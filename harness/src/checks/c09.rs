//! C09 - tracking decides exactly where gradients are computed and stored.
//!
//! Monitors: flag reader (public API: stop_tracking/start_tracking return values), gradient presence against the
//! reference reachability over tracked-at-use operands, sole-owner probe (`Vec::from`), a metamorphic second pass
//! (detects flags of graph-internal clones that were not restored), plainness of produced gradients, clone
//! independence. The read-only hook is used for coverage counts only.

use super::c02;
use super::common::*;
use super::CheckDef;
use crate::cg::*;
use crate::ctx::{guard, panic_class, Ctx, Tier};
use crate::program::*;
use crate::refmodel::*;
use crate::rng::Rng;
use corgi::array::Array;
use corgi::numbers::Float;

pub static DEF: CheckDef = CheckDef {
    id: "C09",
    families,
    run_case,
    rule: "iff: every built-in operation (shapes/parameters from the C02 grids: unary, binary with broadcasting, \
           matmul with and without additive term incl. rank-1 forms, conv) x EVERY tracked subset of its operands: \
           result flag == OR(operand flags); for the all-untracked subset each operand must again be the sole owner \
           of its buffer while the result is alive (views - reshape, sum(0) - excepted); flow: random DAG programs \
           with tracked()/untracked() on intermediates and start/stop_tracking on earlier handles: gradient presence \
           per handle vs reference reachability over operands tracked when used, values vs forward mode, flags of \
           all handles before/after the pass, a second identical pass must exactly double every gradient, produced \
           gradients are untracked and using one in a later differentiated expression adds nothing to the original \
           leaves; clones: toggling / consuming a clone leaves the original's flag. Non-trivial = at least one \
           untracked operand or intermediate next to a tracked one; distinct = distinct (program text / op, mask).",
    floors,
    exhaustive: |_| Some("family iff: every tracked subset of the operands of every operation case generated"),
    assumptions: &[
        "for Array::op nodes the caller decides tracking (derivative passed or not); the harness' custom ops follow the built-in rule",
        "seeds are untracked",
    ],
};

fn families(t: Tier) -> Vec<(&'static str, u64)> {
    vec![("iff", t.n(6_000, 360_000)), ("flow", t.n(30_000, 2_400_000)), ("clones", t.n(2_000, 200_000)), ("model-input", t.n(1_500, 150_000))]
}
fn floors(_t: Tier) -> Vec<(&'static str, u64)> {
    vec![
        ("evaluations", 15_000),
        ("iff_cells_checked", 10_000),
        ("sole_owner_probes", 5_000),
        ("flags_compared_before_after", 30_000),
        ("second_pass_checked", 5_000),
        ("gradient_plainness_checked", 3_000),
        ("programs_with_untracked_intermediate", 1_000),
    ]
}

fn is_view(k: &OpKind) -> bool {
    matches!(k, OpKind::Reshape(_) | OpKind::Sum(0))
}

fn run_iff(ctx: &mut Ctx, k: u64, r: &mut Rng) {
    let fams = ["unary", "binary", "matmul", "conv"];
    let fam = fams[(k % 4) as usize];
    // unary: the shape walks with k, the operation (and its parameter) is drawn, so that the quick tier reaches the
    // whole operation table
    let kk = match fam {
        "unary" => (k / 4) % 120 + 120 * r.below(64) as u64,
        "binary" => k / 4 + 7 * (k / 4),
        _ => k / 4,
    };
    let by_ref = LEAF_FLAGS_BY_REFERENCE.with(|c| c.get());
    let case = match c02::gen_case(fam, kk, r) {
        Some(c) => c,
        None => return,
    };
    let n = case.dims.len();
    for subset in 0..(1usize << n) {
        let mask: Vec<bool> = (0..n).map(|i| subset >> i & 1 == 1).collect();
        let desc = format!("iff|{}|{:?}|{}", case.kind.name(), case.dims, c02::mask_name(&mask));
        ctx.case(&desc, subset != 0 && subset != (1 << n) - 1);
        ctx.count("iff_cells_checked", 1);
        ctx.hist("iff_table", &format!("{}|{}", case.kind.family(), c02::mask_name(&mask)));
        let res = guard(|| {
            let ops: Vec<Array> = (0..n)
                .map(|i| {
                    let a = arr(&case.dims[i], &case.vals[i]);
                    if by_ref {
                        if mask[i] {
                            a.start_tracking();
                            a
                        } else {
                            let a = a.tracked();
                            a.stop_tracking();
                            a
                        }
                    } else if mask[i] {
                        a.tracked()
                    } else {
                        a
                    }
                })
                .collect();
            let refs: Vec<&Array> = ops.iter().collect();
            let result = case.kind.apply_corgi(&refs, 0);
            let flag = is_tracked(&result);
            let flags_after: Vec<bool> = ops.iter().map(is_tracked).collect();
            let children = result.verif_children().len();
            // sole-owner probe, with the result still alive
            let mut probe: Vec<Result<(), String>> = vec![];
            if subset == 0 && !is_view(&case.kind) {
                for a in ops {
                    probe.push(guard(|| {
                        let _v: Vec<Float> = Vec::from(a);
                    }));
                }
            }
            drop(result);
            (flag, flags_after, children, probe)
        });
        match res {
            Err(m) => {
                ctx.violation(&format!("C09|iff|{}|panic:{}", case.kind.family(), panic_class(&m)), format!("{} panicked: {}", desc, m));
            }
            Ok((flag, flags_after, children, probe)) => {
                ctx.meta(|| format!("{} {}", desc, flag));
                let want = mask.iter().any(|b| *b);
                if flag != want {
                    ctx.violation(
                        &format!("C09|iff|{}|result-flag", case.kind.family()),
                        format!("{} of operands tracked={:?} returned a result with tracked={} (want {})", case.kind.name(), mask, flag, want),
                    );
                }
                if flags_after != mask {
                    ctx.violation(
                        &format!("C09|iff|{}|operand-flag-changed", case.kind.family()),
                        format!("{}: operand flags {:?} became {:?} by building the result", case.kind.name(), mask, flags_after),
                    );
                }
                if subset == 0 {
                    ctx.count("untracked_results_children_seen_by_hook", children as u64);
                    if is_view(&case.kind) {
                        ctx.count("views_not_probed", 1);
                    }
                }
                for (i, pr) in probe.iter().enumerate() {
                    ctx.count("sole_owner_probes", 1);
                    if let Err(m) = pr {
                        ctx.violation(
                            &format!("C09|iff|{}|untracked-result-keeps-operand", case.kind.family()),
                            format!("{} of untracked operands: operand {} is not the sole owner of its buffer while the result is alive ({})", case.kind.name(), i, m),
                        );
                    }
                }
            }
        }
    }
    ctx.sample(&format!("iff-{}", fam), || format!("{} on dims {:?}: all {} tracked subsets", case.kind.name(), case.dims, 1 << n));
}

fn run_flow(ctx: &mut Ctx, r: &mut Rng) {
    let mut cfg = if r.chance(2, 3) { GenCfg::exact() } else { GenCfg::smooth() };
    cfg.toggles = true;
    cfg.untracked_eighths = 3;
    cfg.max_ops = 9;
    let mut p = gen_program(r, &cfg);
    if r.chance(1, 10) {
        // a hand-made pattern: an intermediate h that must keep its gradient (explicitly tracked()), a second handle c
        // of it that is switched off, and one operation consuming both - the detached alias before or after h
        let mut q = Program::default();
        let n = r.range(1, 3);
        let ints = |r: &mut Rng| -> Vec<f64> { (0..n).map(|_| r.int(-3, 3)).collect() };
        let va = ints(r);
        let a = q.leaf(&[n], &va, true);
        let vb = ints(r);
        let b = q.leaf(&[n], &vb, !r.chance(1, 3));
        let h = q.op([OpKind::Mul, OpKind::Add, OpKind::CMul][r.below(3)].clone(), &[a, b]);
        if let Node::Op { post, .. } = &mut q.nodes[h] {
            *post = Some(true);
        }
        let c = q.op(OpKind::CloneH, &[h]);
        // detached by value (`h.clone().untracked()`) or by reference (`c.stop_tracking()`)
        let by_value = r.chance(1, 2);
        if by_value {
            if let Node::Op { post, .. } = &mut q.nodes[c] {
                *post = Some(false);
            }
        }
        let k = [OpKind::Mul, OpKind::Add, OpKind::Sub, OpKind::CMul, OpKind::CAdd, OpKind::CLibMul][r.below(6)].clone();
        let args = if r.chance(1, 2) { vec![c, h] } else { vec![h, c] };
        let y = q.op(k, &args);
        if !by_value {
            if let Node::Op { pre, .. } = &mut q.nodes[y] {
                pre.push((c, false));
            }
        }
        if r.chance(1, 2) {
            q.op(OpKind::Add, &[y, h]);
        }
        ctx.count("alias_sibling_patterns", 1);
        p = q;
    }
    // the root is never explicitly untracked (that is outside "the array the pass is started on")
    let root = p.root();
    for i in [root, p.base(root)] {
        if let Node::Op { post, .. } = &mut p.nodes[i] {
            if *post == Some(false) {
                *post = None;
            }
        }
    }
    let rr = match eval_ref_plain(&p) {
        Some(x) => x,
        None => return,
    };
    let od = rr.vals[root].dims.clone();
    let seed = rand_seed(r, numel(&od));
    // (1) presence + values through the shared oracle
    let o = run_and_check(&p, &seed, &CheckOpts::default());
    let has_untracked_mid = p.nodes.iter().any(|n| matches!(n, Node::Op { post: Some(false), .. }))
        || p.nodes.iter().any(|n| matches!(n, Node::Op { pre, .. } if pre.iter().any(|(_, on)| !*on)));
    let mixed = rr.flags_at_creation.iter().any(|f| *f) && rr.flags_at_creation.iter().any(|f| !*f);
    let desc = format!("flow|{}|{}", p.desc(), seed.name());
    ctx.case(&desc, mixed);
    if has_untracked_mid {
        ctx.count("programs_with_untracked_intermediate", 1);
    }
    ctx.count("gradients_compared", o.grads_compared);
    ctx.sample(if has_untracked_mid { "flow-untracked-mid" } else { "flow" }, || format!("{} seed={:?}", p.pretty(), seed));
    ctx.meta(|| format!("{} {}", desc, o.meta));
    for f in &o.failures {
        let cls = if f.kind.ends_with("panic") { format!("{}:{}", f.kind, panic_class(f.detail.split("panicked: ").nth(1).unwrap_or(""))) } else { f.kind.clone() };
        ctx.violation(&format!("C09|flow|{}", cls), format!("{}\nprogram: {}\nseed: {:?}", f.detail, p.pretty(), seed));
    }
    if !o.failures.is_empty() {
        return;
    }
    // (2) flags before/after, second pass, plain gradients - on a fresh instance
    let res = guard(|| {
        let arrays = eval_corgi(&p);
        let before: Vec<bool> = arrays.iter().map(is_tracked).collect();
        // flags of graph-internal clones (hook: coverage and detail only)
        let mut internal_before = vec![];
        for a in &arrays {
            for c in a.verif_children() {
                internal_before.push(c.verif_state().is_tracked);
            }
        }
        arrays[root].backward(seed.array(&od));
        let after: Vec<bool> = arrays.iter().map(is_tracked).collect();
        let mut internal_after = vec![];
        for a in &arrays {
            for c in a.verif_children() {
                internal_after.push(c.verif_state().is_tracked);
            }
        }
        let g1: Vec<Option<(Vec<usize>, Vec<f64>)>> = arrays.iter().map(grad_of).collect();
        // produced gradients are plain arrays
        let mut plain = vec![];
        for (i, a) in arrays.iter().enumerate() {
            if let Some(g) = a.gradient().as_ref() {
                plain.push((i, is_tracked(g), g.verif_children().len(), g.gradient().is_some()));
            }
        }
        arrays[root].backward(seed.array(&od));
        let g2: Vec<Option<(Vec<usize>, Vec<f64>)>> = arrays.iter().map(grad_of).collect();
        let after2: Vec<bool> = arrays.iter().map(is_tracked).collect();
        // use a produced gradient in a later differentiated expression: nothing may flow back into the leaves
        let mut later: Option<(usize, bool, bool)> = None;
        let leaves = p.leaves();
        if let Some(l) = leaves.iter().find(|l| g2[**l].is_some()) {
            let g = arrays[*l].gradient().as_ref().unwrap().clone();
            let w = arr(g.dimensions(), &vec![1.0; g.values().len()]).tracked();
            let h = &g * &w;
            let tracked_h = is_tracked(&h);
            h.backward(None);
            let g3: Vec<Option<(Vec<usize>, Vec<f64>)>> = arrays.iter().map(grad_of).collect();
            later = Some((*l, tracked_h, g3 == g2));
        }
        // (3) the same pass started from a root handle whose own tracking is paused (stop_tracking() on the handle: the
        // result is the same array, and what flows below it was decided when it was built)
        let paused = eval_corgi(&p);
        paused[root].stop_tracking();
        let pbefore: Vec<bool> = paused.iter().map(is_tracked).collect();
        paused[root].backward(seed.array(&od));
        let pafter: Vec<bool> = paused.iter().map(is_tracked).collect();
        let gp: Vec<Option<(Vec<usize>, Vec<f64>)>> = paused.iter().map(grad_of).collect();
        // (4) `h.clone().untracked()` - "use the values of h as a constant" - on a fresh instance, for every explicitly
        // tracked() intermediate h, before the pass: h itself must still store its gradient
        let detached = eval_corgi(&p);
        let consts: Vec<Array> = detached.iter().map(|a| a.clone().untracked()).collect();
        let dflags: Vec<bool> = detached.iter().map(is_tracked).collect();
        detached[root].backward(seed.array(&od));
        let gd: Vec<Option<(Vec<usize>, Vec<f64>)>> = detached.iter().map(grad_of).collect();
        drop(consts);
        (before, after, after2, internal_before, internal_after, g1, g2, plain, later, (pbefore, pafter, gp), (dflags, gd))
    });
    let (before, after, after2, ib, ia, g1, g2, plain, later, (pbefore, pafter, gp), (dflags, gd)) = match res {
        Ok(x) => x,
        Err(m) => {
            ctx.violation(&format!("C09|flow|second-run-panic:{}", panic_class(&m)), format!("second pass / later expression panicked: {}\nprogram: {}", m, p.pretty()));
            return;
        }
    };
    ctx.count("flags_compared_before_after", before.len() as u64);
    ctx.count("graph_internal_clone_flags_seen_by_hook", ib.len() as u64);
    if before != after || before != after2 {
        ctx.violation(
            "C09|flow|handle-flag-changed-by-pass",
            format!("tracking flags of the program's handles before the pass {:?}, after {:?}, after a second pass {:?}\nprogram: {}", before, after, after2, p.pretty()),
        );
    }
    if ib != ia {
        // informational: the verdict for internal clones is the second-pass relation below
        ctx.count("hook_saw_internal_flag_change", 1);
    }
    ctx.count("second_pass_checked", 1);
    for (i, (a, b)) in g1.iter().zip(&g2).enumerate() {
        let ok = match (a, b) {
            (None, None) => true,
            (Some((d1, v1)), Some((d2, v2))) => d1 == d2 && v1.iter().zip(v2).all(|(x, y)| *y == 2.0 * *x),
            _ => false,
        };
        if !ok {
            ctx.violation(
                "C09|flow|second-pass-not-double",
                format!("n{}: gradient after one pass {:?}, after two identical passes {:?} (must be exactly double)\nprogram: {}\nseed {:?}", i, a, b, p.pretty(), seed),
            );
            break;
        }
    }
    for (i, tracked, children, has_grad) in plain {
        ctx.count("gradient_plainness_checked", 1);
        if children > 0 {
            ctx.count("gradients_with_recorded_children_seen_by_hook(info)", 1);
        }
        if tracked || has_grad {
            ctx.violation(
                "C09|flow|gradient-not-plain",
                format!("the gradient stored for n{} is tracked={} children={} holds-gradient={}\nprogram: {}", i, tracked, children, has_grad, p.pretty()),
            );
        }
    }
    ctx.count("paused_root_passes_checked", 1);
    if pbefore != pafter {
        ctx.violation("C09|flow|paused-root|handle-flag-changed-by-pass", format!("flags before {:?} after {:?} (pass started on a handle with tracking paused)\nprogram: {}", pbefore, pafter, p.pretty()));
    }
    let root_base = p.base(root);
    for i in 0..g1.len() {
        if p.base(i) == root_base {
            continue;
        }
        if g1[i] != gp[i] {
            ctx.violation(
                "C09|flow|paused-root|gradients-differ",
                format!("n{}: gradient {:?} when the pass is started on the result handle, {:?} when started on the same handle after stop_tracking() on it (what flows below the result was decided when it was built)\nprogram: {}\nseed {:?}", i, g1[i], gp[i], p.pretty(), seed),
            );
            break;
        }
    }
    ctx.count("detached_clone_runs_checked", 1);
    if dflags != before {
        ctx.violation("C09|flow|clone-untracked-changed-original-flag", format!("flags {:?} became {:?} after `h.clone().untracked()` on every handle\nprogram: {}", before, dflags, p.pretty()));
    }
    for i in 0..g1.len() {
        if g1[i] != gd[i] {
            ctx.violation(
                "C09|flow|clone-untracked-changed-original",
                format!("n{}: gradient {:?} in a plain run, {:?} when `h.clone().untracked()` was called on every handle before the pass (setting the flag on a clone never changes the original)\nprogram: {}\nseed {:?}", i, g1[i], gd[i], p.pretty(), seed),
            );
            break;
        }
    }
    if let Some((l, tracked_h, unchanged)) = later {
        ctx.count("later_expression_checked", 1);
        if !tracked_h {
            ctx.violation("C09|flow|later-expression-flag", format!("gradient(n{}) * tracked array gave an untracked result", l));
        }
        if !unchanged {
            ctx.violation(
                "C09|flow|gradient-has-graph",
                format!("a pass over an expression built from the stored gradient of n{} changed gradients of the original program\nprogram: {}", l, p.pretty()),
            );
        }
    }
}

fn run_clones(ctx: &mut Ctx, r: &mut Rng) {
    let d = super::shapes::rand_shape(r, 3, 3);
    let v = super::shapes::rand_ints(r, numel(&d), -3, 3);
    let start = r.chance(1, 2);
    let steps: Vec<usize> = (0..r.range(1, 6)).map(|_| r.below(6)).collect();
    ctx.case(&format!("clones|{}|{:?}", start, steps), true);
    ctx.sample("clones", || format!("a = Array{:?} tracked={}; clone operations {:?}", d, start, steps));
    let res = guard(|| {
        let a = if start { arr(&d, &v).tracked() } else { arr(&d, &v) };
        let mut errs: Vec<String> = vec![];
        let mut clones: Vec<Array> = vec![];
        for s in &steps {
            let c = a.clone();
            if is_tracked(&c) != start {
                errs.push(format!("a clone of a (tracked={}) reads tracked={}", start, is_tracked(&c)));
            }
            let c = match s {
                0 => {
                    let prev = c.stop_tracking();
                    if prev != start {
                        errs.push(format!("stop_tracking on a fresh clone returned {} (flag was {})", prev, start));
                    }
                    c
                }
                1 => {
                    let prev = c.start_tracking();
                    if prev != start {
                        errs.push(format!("start_tracking on a fresh clone returned {} (flag was {})", prev, start));
                    }
                    c
                }
                2 => c.tracked(),
                3 => c.untracked(),
                4 => {
                    // clone of a toggled clone
                    c.stop_tracking();
                    let c2 = c.clone();
                    c2.start_tracking();
                    if is_tracked(&c) {
                        errs.push("toggling a clone of a clone changed the clone it was taken from".into());
                    }
                    c2
                }
                _ => {
                    // use the toggled clone in an operation and run a pass through it
                    let t = c.stop_tracking();
                    c.start_tracking();
                    let w = arr(&d, &v).tracked();
                    let y = &c * &w;
                    y.backward(None);
                    if !t {
                        c.stop_tracking();
                    }
                    c
                }
            };
            if is_tracked(&a) != start {
                errs.push(format!("after clone operation {} the original reads tracked={} (was {})", s, is_tracked(&a), start));
            }
            clones.push(c);
        }
        // (the Debug rendering of the flag is not part of the property; it is only exercised here)
        let _dbg = format!("{:?}", a);
        errs
    });
    match res {
        Err(m) => ctx.violation(&format!("C09|clones|panic:{}", panic_class(&m)), format!("clone sequence {:?} panicked: {}", steps, m)),
        Ok(errs) => {
            ctx.count("clone_steps_checked", steps.len() as u64);
            for e in errs {
                ctx.violation("C09|clones|flag-leak", format!("{} (sequence {:?}, original tracked={})", e, steps, start));
            }
        }
    }
}

thread_local! {
    static TARGET_GRAD: std::cell::RefCell<Option<(Option<Vec<usize>>, Vec<usize>)>> = std::cell::RefCell::new(None);
}

/// A tracked array the caller keeps reaches a Model through a temporary - a reshaped view, a product with 1 - that
/// nothing else refers to. The temporary is a result of a tracked operand, so the model's output is tracked through
/// it and the pass delivers a gradient of the kept array's dimensions; whether the caller also keeps the temporary
/// makes no difference.
fn run_model_input(ctx: &mut Ctx, r: &mut Rng) {
    use crate::nn::*;
    use corgi::cost::{self, CostFunction};
    use corgi::layer::Layer;
    use corgi::model::Model;
    use corgi::optimizer::gd::GradientDescent;
    let spec = gen_net(r, false);
    let params = gen_params(r, &spec, false);
    let input = gen_input(r, &spec, false);
    let out = match forward_ref::<f64>(&spec, &params, &input) {
        Some((o, _)) => o,
        None => return,
    };
    let target = gen_target(r, &out.dims);
    let how = r.below(4);
    let freeze_all = r.chance(1, 4);
    // an evaluation call on a plain handle of the same batch right before (same Model, no update in between): what that
    // call worked out was worked out for a plain input
    let prior_eval = r.chance(1, 2);
    if prior_eval {
        ctx.count("model_inputs_after_an_evaluation_of_the_same_batch", 1);
    }
    let desc = format!("model-input|{}|via={}|parameters-frozen={}|plain-evaluation-first={}", spec.describe(), ["reshape", "times-one", "flat-then-reshape", "tracked-clone-itself"][how], freeze_all, prior_eval);
    ctx.case(&desc, true);
    ctx.sample("model-input", || desc.clone());
    let run = |keep_temporary: bool| {
        guard(|| {
            let a = Acts::new();
            let mut layers = build_layers(&spec, &a, &params);
            if freeze_all {
                for l in layers.iter_mut() {
                    for p in l.parameters() {
                        p.stop_tracking();
                    }
                }
            }
            let costf: CostFunction = if spec.ce { cost::cross_entropy() } else { cost::mse() };
            let opt = GradientDescent::new(0.0);
            let base = arr_t(&input);
            let x = base.clone().tracked();
            let n = x.values().len();
            let mk = |x: &Array| match how {
                0 => x.reshape(x.dimensions().to_vec()),
                1 => x * (1.0 as Float),
                2 => x.reshape(vec![n]).reshape(x.dimensions().to_vec()),
                _ => x.clone(),
            };
            let refs: Vec<&mut dyn Layer> = layers.iter_mut().map(|s| s as &mut dyn Layer).collect();
            let mut model = Model::new(refs, &opt, &costf);
            if prior_eval {
                let _ = model.forward(base.clone());
            }
            let kept: Option<Array>;
            let out = if keep_temporary {
                let v = mk(&x);
                let o = model.forward(v.clone());
                kept = Some(v);
                o
            } else {
                kept = None;
                model.forward(mk(&x))
            };
            let tracked_out = is_tracked(&out);
            // the target is a tracked array the caller keeps as well (say, the output of a teacher network)
            let tgt = arr_t(&target).tracked();
            let _ = model.backward(tgt.clone());
            drop(kept);
            TARGET_GRAD.with(|t| *t.borrow_mut() = Some((grad_of(&tgt).map(|g| g.0), tgt.dimensions().to_vec())));
            (tracked_out, grad_of(&x), is_tracked(&x))
        })
    };
    // the cost closures are operations like any other: plain output and target give a plain cost array, a tracked one
    // of either gives a tracked cost
    {
        let plain = guard(|| {
            let costf: CostFunction = if spec.ce { cost::cross_entropy() } else { cost::mse() };
            let o = arr_t(&out);
            let t = arr_t(&target);
            let c0 = is_tracked(&costf(&o, &t));
            let c1 = is_tracked(&costf(&o.clone().tracked(), &t));
            let c2 = is_tracked(&costf(&o, &t.clone().tracked()));
            (c0, c1, c2)
        });
        ctx.count("cost_tracking_cells_checked", 3);
        match plain {
            Ok((c0, c1, c2)) => {
                if c0 || !c1 || !c2 {
                    ctx.violation("C09|model-input|cost-tracking", format!("{}: cost of (plain, plain) tracked={}, of (tracked output, plain) tracked={}, of (plain, tracked target) tracked={}", desc, c0, c1, c2));
                    return;
                }
            }
            Err(m) => {
                ctx.violation(&format!("C09|model-input|cost-panic:{}", panic_class(&m)), format!("{}: cost closure panicked: {}", desc, m));
                return;
            }
        }
    }
    let (a, b) = (run(false), run(true));
    match (a, b) {
        (Ok((ta, ga, fa)), Ok((tb, gb, fb))) => {
            ctx.meta(|| format!("{} {} {:?}", desc, ta, ga.as_ref().map(|g| g.0.clone())));
            ctx.count("model_inputs_checked", 1);
            if let Some((gd, td)) = TARGET_GRAD.with(|t| t.borrow_mut().take()) {
                ctx.count("tracked_targets_checked", 1);
                match gd {
                    None => {
                        ctx.violation("C09|model-input|target-gradient-missing", format!("{}: the tracked target handed to Model::backward received no gradient", desc));
                        return;
                    }
                    Some(d) if d != td => {
                        ctx.violation("C09|model-input|target-gradient-dims", format!("{}: target dims {:?}, its gradient dims {:?}", desc, td, d));
                        return;
                    }
                    _ => {}
                }
            }
            if !ta || !tb {
                ctx.violation("C09|model-input|output-untracked", format!("{}: the input is a result of a tracked array but the model's output is untracked (temporary passed directly: {}, temporary kept: {})", desc, ta, tb));
                return;
            }
            if !fa || !fb {
                ctx.violation("C09|model-input|flag-changed", format!("{}: the kept array's tracking flag was switched off", desc));
                return;
            }
            match (&ga, &gb) {
                (Some((da, va)), Some((db, vb))) => {
                    if da != &input.dims || db != &input.dims {
                        ctx.violation("C09|model-input|gradient-dims", format!("{}: gradient dims {:?} / {:?}, array dims {:?}", desc, da, db, input.dims));
                    } else if va.iter().map(|x| x.to_bits()).ne(vb.iter().map(|x| x.to_bits())) {
                        ctx.violation("C09|model-input|depends-on-keeping-the-temporary", format!("{}: the kept array's gradient differs between passing the temporary directly {} and keeping a handle to it {}", desc, short(va), short(vb)));
                    }
                }
                _ => {
                    ctx.violation(
                        "C09|model-input|gradient-missing",
                        format!("{}: the tracked array the input was derived from received no gradient (temporary passed directly: {}, temporary kept: {})", desc, ga.is_some(), gb.is_some()),
                    );
                }
            }
        }
        (Err(m), _) | (_, Err(m)) => {
            ctx.violation(&format!("C09|model-input|panic:{}", panic_class(&m)), format!("{} panicked: {}", desc, m));
        }
    }
}

pub fn run_case(ctx: &mut Ctx, fam: &str, k: u64, r: &mut Rng) {
    // a third of the program cases give their leaves the tracking state by reference (plain then start_tracking();
    // tracked() then stop_tracking()) instead of by value at creation
    let by_ref = (fam == "iff" || fam == "flow") && r.chance(1, 3);
    leaf_flags_by_reference(by_ref);
    if by_ref {
        ctx.count("cases_with_leaf_flags_set_by_reference", 1);
    }
    struct Reset;
    impl Drop for Reset {
        fn drop(&mut self) {
            leaf_flags_by_reference(false);
        }
    }
    let _reset = Reset;
    match fam {
        "iff" => run_iff(ctx, k, r),
        "flow" => run_flow(ctx, r),
        "model-input" => run_model_input(ctx, r),
        _ => run_clones(ctx, r),
    }
}
