//! C07 - reductions, reshape and point-wise functions compute their definitions.

use super::shapes::*;
use super::CheckDef;
use crate::cg::*;
use crate::ctx::{guard, panic_class, Ctx, Tier};
use crate::program::OpKind;
use crate::refmodel::*;
use crate::rng::Rng;
use corgi::array::Array;

pub static DEF: CheckDef = CheckDef {
    id: "C07",
    families,
    run_case,
    rule: "grid: every shape (rank 1..4, dims 1..3) x {sum(k) for k=0..rank, sum_all, every reshape target that is an \
           ordered factorisation into <=3 factors, wrong-count and zero-dimension reshape targets (must panic), neg, \
           scale, powf with 8 exponents, ln, exp, reciprocal, relu, sigmoid, softmax}; rand: shapes up to rank 5 / dim \
           6. Each function is evaluated on an untracked and on a tracked operand (values must agree bit for bit). \
           softmax rows are additionally monitored for >= 0 and sum 1. Non-trivial = more than one element; distinct \
           = distinct (function, parameter, shape).",
    floors,
    exhaustive: |_| Some("family grid: all 120 shapes x every listed function/parameter"),
    assumptions: &[
        "scalar definitions: IEEE add/mul for sums (integer data => order-independent), libm exp/ln/powf for the smooth functions (compared with a scaled tolerance)",
    ],
};

fn families(t: Tier) -> Vec<(&'static str, u64)> {
    vec![("grid", 120 * FUNCS), ("rand", t.n(6_000, 1_500_000))]
}
fn floors(_t: Tier) -> Vec<(&'static str, u64)> {
    vec![("evaluations", 8_000), ("refusals_observed", 200), ("softmax_rows_monitored", 300), ("elements_compared", 50_000)]
}

const FUNCS: u64 = 35;
const POWF_EXP: [f64; 8] = [-2.0, -1.0, -0.5, 0.5, 1.0, 2.0, 3.0, 3.5];

fn check_value(ctx: &mut Ctx, name: &str, d: &[usize], vals_in: &[f64], kind: &OpKind, exact: bool) {
    let t: T<f64> = T::from_f64(d, vals_in);
    let want = match kind.apply_ref(&[&t]) {
        Some(w) => w,
        None => return,
    };
    // bounded functions: the tolerance is relative to the outputs, not to (possibly large) arguments
    let scale = if matches!(kind, OpKind::Softmax | OpKind::Sigmoid | OpKind::Exp) { want.max_abs().max(1.0) } else { want.max_abs().max(t.max_abs()).max(1.0) };
    let mut results: Vec<(Vec<usize>, Vec<f64>, bool)> = vec![];
    for tracked in [false, true] {
        let a = if tracked { arr(d, vals_in).tracked() } else { arr(d, vals_in) };
        match guard(|| {
            // (the node id selects between the two spellings of a scalar product, `&a * s` and `s * &a`)
            let r = kind.apply_corgi(&[&a], d.len() + vals_in.len());
            (r.dimensions().to_vec(), vals(&r), is_tracked(&r))
        }) {
            Ok(x) => results.push(x),
            Err(msg) => {
                ctx.meta(|| format!("{} {:?} panic", name, d));
                ctx.violation(
                    &format!("C07|{}|panic:{}", name, panic_class(&msg)),
                    format!("{} of {:?}{} (tracked={}) panicked: {}", kind.name(), d, short(vals_in), tracked, msg),
                );
                return;
            }
        }
    }
    // (the operation family, not its parameter: some extreme-range cases pick their parameter by float width)
    ctx.meta(|| format!("{} {:?} ok{:?}", kind.family(), d, results[0].0));
    for (i, (gd, gv, _)) in results.iter().enumerate() {
        ctx.count("elements_compared", want.v.len() as u64);
        let pointwise = matches!(kind, OpKind::Exp | OpKind::Ln | OpKind::Recip | OpKind::Sigmoid | OpKind::Softmax | OpKind::Powf(_) | OpKind::Scale(_));
        let cmp = if !exact && pointwise { compare_rel(gd, gv, &want) } else { compare(gd, gv, &want, if exact { Rule::Exact } else { Rule::Tol(scale) }) };
        match cmp {
            Ok(w) => ctx.fmax("value", w),
            Err((k, detail)) => {
                ctx.violation(
                    &format!("C07|{}|wrong-{}", name, k),
                    format!("{} of {:?}{} (tracked={}): {}", kind.name(), d, short(vals_in), i == 1, detail),
                );
                return;
            }
        }
    }
    if results[0].1.iter().map(|x| x.to_bits()).ne(results[1].1.iter().map(|x| x.to_bits())) {
        ctx.violation(
            &format!("C07|{}|tracking-changes-values", name),
            format!("{} of {:?}{}: untracked result {} != tracked result {}", kind.name(), d, short(vals_in), short(&results[0].1), short(&results[1].1)),
        );
    }
    if let OpKind::Softmax = kind {
        let (gd, gv, _) = &results[0];
        let n = *gd.last().unwrap();
        let eps = if IS_F32 { 1e-6 } else { 1e-13 } * n as f64;
        for row in gv.chunks(n) {
            ctx.count("softmax_rows_monitored", 1);
            let s: f64 = row.iter().sum();
            if row.iter().any(|x| !(*x >= 0.0)) || (s - 1.0).abs() > eps.max(if IS_F32 { 1e-5 } else { 1e-12 }) {
                ctx.violation("C07|softmax|row-invariant", format!("softmax of {:?}{}: row {:?} sums to {}", d, short(vals_in), row, s));
                break;
            }
        }
    }
}

pub fn run_case(ctx: &mut Ctx, fam: &str, k: u64, r: &mut Rng) {
    let (d, f): (Vec<usize>, u64) = if fam == "grid" {
        (all_shapes(4, 3)[(k % 120) as usize].clone(), k / 120)
    } else {
        let mut d = rand_shape(r, 5, 6);
        if r.chance(1, 4) {
            // one long dimension: reductions / maps over 17..70 elements meet blocked loops' tails
            d = rand_shape(r, 3, 3);
            let i = r.below(d.len());
            d[i] = if r.chance(1, 2) { r.range(9, 70) } else { super::shapes::long_dim(r) };
        } else if r.chance(1, 8) {
            d = super::shapes::high_rank_shape(r);
        }
        (d, r.below(FUNCS as usize) as u64)
    };
    let n = numel(&d);
    let rank = d.len();
    let ints = rand_ints(r, n, -9, 9);
    let pos = rand_pos(r, n);
    let qn = rand_quarters_nz(r, n);
    let q: Vec<f64> = (0..n).map(|_| 0.25 * r.int(-16, 16)).collect();
    let name: String;
    match f {
        0 => {
            // sum(k) for every k, plus sum_all
            name = "sum".into();
            for kk in 0..=rank {
                check_value(ctx, "sum", &d, &ints, &OpKind::Sum(kk), true);
            }
            let a = arr(&d, &ints);
            let want: f64 = ints.iter().sum();
            match guard(|| a.sum_all() as f64) {
                Ok(g) if g == want => {}
                Ok(g) => ctx.violation("C07|sum_all|wrong-values", format!("sum_all of {:?}{} = {} want {}", d, short(&ints), g, want)),
                Err(m) => ctx.violation("C07|sum_all|panic", format!("sum_all of {:?} panicked: {}", d, m)),
            }
            // k = 0 is the identity (same values and dims)
        }
        1 => {
            name = "reshape".into();
            let mut targets: Vec<Vec<usize>> = vec![vec![n]];
            for a in 1..=n {
                if n % a == 0 {
                    targets.push(vec![a, n / a]);
                    for b in 1..=(n / a) {
                        if (n / a) % b == 0 {
                            targets.push(vec![a, b, n / a / b]);
                        }
                    }
                }
            }
            if fam != "grid" {
                let t = targets[r.below(targets.len())].clone();
                targets = vec![t];
            }
            for t in &targets {
                check_value(ctx, "reshape", &d, &ints, &OpKind::Reshape(t.clone()), true);
            }
            // refusals: wrong element count, zero dimension
            let bad: Vec<Vec<usize>> = vec![vec![n + 1], vec![n, 2], vec![1, n + 2], vec![0], vec![n, 0], vec![2, n, 1]];
            for t in bad {
                if numel(&t) == n && t.iter().all(|x| *x > 0) {
                    continue;
                }
                for tracked in [false, true] {
                    let a = if tracked { arr(&d, &ints).tracked() } else { arr(&d, &ints) };
                    match guard(|| {
                        let r = a.reshape(t.clone());
                        (r.dimensions().to_vec(), vals(&r))
                    }) {
                        Err(m) => {
                            ctx.count("refusals_observed", 1);
                            ctx.hist("refusal_messages", &panic_class(&m));
                        }
                        Ok((gd, _)) => ctx.violation(
                            "C07|reshape|accepted-wrong-count",
                            format!("reshape of {:?} ({} elements) to {:?} must be refused but returned dims {:?}", d, n, t, gd),
                        ),
                    }
                }
            }
        }
        2 => {
            name = "neg".into();
            check_value(ctx, "neg", &d, &ints, &OpKind::Neg, true)
        }
        3 => {
            name = "scale".into();
            check_value(ctx, "scale", &d, &ints, &OpKind::Scale(r.int(-5, 5)), true);
            check_value(ctx, "scale", &d, &q, &OpKind::Scale(0.5), true);
            check_value(ctx, "scale", &d, &q, &OpKind::Scale(1.75), false);
        }
        4..=11 => {
            let e = POWF_EXP[(f - 4) as usize];
            name = format!("powf({})", e);
            check_value(ctx, &name, &d, &pos, &OpKind::Powf(e), false);
            if e.fract() == 0.0 {
                check_value(ctx, &name, &d, &qn, &OpKind::Powf(e), false);
            }
        }
        12 => {
            name = "ln".into();
            check_value(ctx, "ln", &d, &pos, &OpKind::Ln, false)
        }
        13 => {
            name = "exp".into();
            check_value(ctx, "exp", &d, &q, &OpKind::Exp, false)
        }
        14 => {
            name = "reciprocal".into();
            check_value(ctx, "reciprocal", &d, &qn, &OpKind::Recip, false)
        }
        15 => {
            name = "relu".into();
            let with_zero: Vec<f64> = ints.iter().enumerate().map(|(i, x)| if i % 5 == 0 { 0.0 } else { *x }).collect();
            check_value(ctx, "relu", &d, &with_zero, &OpKind::Relu, true)
        }
        16 => {
            name = "sigmoid".into();
            check_value(ctx, "sigmoid", &d, &q, &OpKind::Sigmoid, false)
        }
        17 => {
            name = "softmax".into();
            check_value(ctx, "softmax", &d, &q, &OpKind::Softmax, false)
        }
        18 => {
            name = "softmax-ints".into();
            check_value(ctx, "softmax", &d, &ints.iter().map(|x| x / 3.0).collect::<Vec<_>>(), &OpKind::Softmax, false)
        }
        19 => {
            name = "sum-pos".into();
            // non-integer data: order of summation may differ legitimately -> tolerance rule
            for kk in 1..=rank {
                check_value(ctx, "sum", &d, &q, &OpKind::Sum(kk), true);
            }
        }
        20 => {
            name = "sum0-identity".into();
            let a = arr(&d, &q);
            match guard(|| {
                let s = a.sum(0);
                (s.dimensions().to_vec(), bits(&s))
            }) {
                Ok((gd, gb)) => {
                    if gd != d || gb != bits(&a) {
                        ctx.violation("C07|sum(0)|not-identity", format!("sum(0) of {:?} returned dims {:?}", d, gd));
                    }
                }
                Err(m) => ctx.violation("C07|sum(0)|panic", format!("sum(0) of {:?} panicked: {}", d, m)),
            }
        }
        21 => {
            name = "exp-ints".into();
            check_value(ctx, "exp", &d, &ints.iter().map(|x| x / 3.0).collect::<Vec<_>>(), &OpKind::Exp, false)
        }
        22 => {
            name = "sigmoid-large".into();
            check_value(ctx, "sigmoid", &d, &ints.iter().map(|x| x * 3.0).collect::<Vec<_>>(), &OpKind::Sigmoid, false)
        }
        23 => {
            name = "ln-large".into();
            check_value(ctx, "ln", &d, &pos.iter().map(|x| x * 100.0).collect::<Vec<_>>(), &OpKind::Ln, false)
        }
        24 => {
            name = "neg-q".into();
            check_value(ctx, "neg", &d, &q, &OpKind::Neg, true)
        }
        25 => {
            name = "relu-q".into();
            check_value(ctx, "relu", &d, &q, &OpKind::Relu, true)
        }
        26 => {
            // rows whose maxima are far apart (each row stays well inside the exponent range of f32 and f64)
            name = "softmax-wide".into();
            let last = *d.last().unwrap();
            let wide: Vec<f64> = q.chunks(last).flat_map(|row| {
                // (the sum of a row's exponentials must stay finite in single precision too: long rows get smaller offsets)
                let cap = 83.0 - (last as f64).ln() - 4.5;
                let off = (*r.pick(&[-80.0f64, -60.0, -30.0, 0.0, 30.0, 60.0, 80.0])).min(cap.floor());
                row.iter().map(move |x| off + x).collect::<Vec<f64>>()
            }).collect();
            check_value(ctx, "softmax", &d, &wide, &OpKind::Softmax, false)
        }
        27 => {
            name = "exp-wide".into();
            let wide: Vec<f64> = q.iter().map(|x| x * 10.0).collect();
            check_value(ctx, "exp", &d, &wide, &OpKind::Exp, false)
        }
        29 => {
            // the whole positive range of the build's float type, subnormals included: exact powers of two
            name = "ln-extreme".into();
            let exps: &[i32] = if IS_F32 { &[-149, -140, -130, -127, -126, -60, -1, 0, 60, 120, 127] } else { &[-1074, -1060, -1030, -1023, -1022, -500, -1, 0, 500, 1000, 1023] };
            let v: Vec<f64> = (0..n).map(|_| (2.0f64).powi(*r.pick(exps))).collect();
            check_value(ctx, "ln", &d, &v, &OpKind::Ln, false)
        }
        30 => {
            // reciprocals of powers of two are exact while the result stays a normal number
            name = "reciprocal-extreme".into();
            let lim = if IS_F32 { 126 } else { 1022 };
            let v: Vec<f64> = (0..n).map(|_| (2.0f64).powi(r.int(-(lim as i64), lim as i64) as i32) * if r.chance(1, 2) { -1.0 } else { 1.0 }).collect();
            check_value(ctx, "reciprocal", &d, &v, &OpKind::Recip, false)
        }
        34 => {
            // scaling by a subnormal / tiny / huge power of two: small integers times 2^e, exact as long as the product is
            // representable
            name = "scale-extreme".into();
            let e: i32 = if IS_F32 { *r.pick(&[-140, -130, -127, -100, 100, 120]) } else { *r.pick(&[-1060, -1030, -1023, -900, 900, 1000]) };
            let small: Vec<f64> = (0..n).map(|_| r.int(-8, 8)).collect();
            check_value(ctx, "scale", &d, &small, &OpKind::Scale((2.0f64).powi(e)), true)
        }
        33 => {
            // rows of a thousand and more values, several of them: every row is reduced on its own
            name = "sum-long".into();
            let rows = r.range(2, 4);
            let len = r.range(1000, 2300);
            let dd = if r.chance(1, 2) { vec![rows, len] } else { vec![rows, 2, len / 2] };
            let nn: usize = dd.iter().product();
            let vv = rand_ints(r, nn, -9, 9);
            for kk in 1..dd.len() {
                check_value(ctx, "sum", &dd, &vv, &OpKind::Sum(kk), true);
            }
            let a = arr(&dd, &vv);
            let want: f64 = vv.iter().sum();
            match guard(|| a.sum_all() as f64) {
                Ok(g) if g == want => {}
                Ok(g) => ctx.violation("C07|sum_all|wrong-values", format!("sum_all of {:?} = {} want {}", dd, g, want)),
                Err(m) => ctx.violation("C07|sum_all|panic", format!("sum_all of {:?} panicked: {}", dd, m)),
            }
        }
        32 => {
            // x^0 is 1 for every x, zero and negative bases included
            name = "powf(0)".into();
            check_value(ctx, "powf(0)", &d, &q, &OpKind::Powf(0.0), false)
        }
        31 => {
            name = "sigmoid-extreme".into();
            let ext: &[f64] = if IS_F32 { &[-200.0, -104.0, -90.0, -30.0, 30.0, 90.0, 200.0] } else { &[-2000.0, -746.0, -710.0, -90.0, -30.0, 30.0, 710.0, 2000.0] };
            let v: Vec<f64> = (0..n).map(|_| *r.pick(ext)).collect();
            check_value(ctx, "sigmoid", &d, &v, &OpKind::Sigmoid, false)
        }
        _ => {
            name = "sigmoid-wide".into();
            let wide: Vec<f64> = q.iter().map(|x| x * 10.0).collect();
            check_value(ctx, "sigmoid", &d, &wide, &OpKind::Sigmoid, false)
        }
    }
    let desc = format!("{}|{:?}", name, d);
    ctx.case(&desc, n > 1);
    ctx.hist("functions", &name);
    ctx.hist("shape_class", &shape_class(&d));
    ctx.sample(&name, || format!("{} on Array{:?}{}", name, d, short(&ints)));
    let _ = Array::from(vec![1usize]);
}
