//! C01 - reverse-mode gradients are exact on arbitrary computation graphs.
//!
//! Oracle: forward-mode dual numbers on the reference interpreter of the same straight-line program (no tape, no
//! consumer counts, no broadcasting-back step). Exact comparison when the magnitude shadow certifies integer
//! arithmetic, scaled tolerance otherwise.

use super::common::*;
use super::CheckDef;
use crate::ctx::{panic_class, Ctx, Tier};
use crate::program::*;
use crate::rng::Rng;

pub static DEF: CheckDef = CheckDef {
    id: "C01",
    families,
    run_case,
    rule: "topo: ALL straight-line DAG topologies over 2 leaves of shape [2] with 1..3 (thorough: 1..4) operation \
           nodes drawn from {neg, add, mul, custom mul via Array::op} with every operand choice among earlier nodes \
           (with replacement) x tracked masks {TT,TU,UT}; dag-exact / dag-smooth: random DAG programs (1..3 leaves \
           of broadcast-related shapes, 1..10 operations incl. matmul, conv, sums, reshapes, user operations; the \
           smooth family adds div, powf, ln, exp, reciprocal, sigmoid, softmax with operand domains enforced from \
           actual values), mixed tracked/untracked leaves; readme: the README loop with random constants, shapes, \
           threshold and iteration count (data-dependent branch); chain: self-product chains of depth 2..60; fanin: \
           wide sums of products sharing leaves; dag-toggles: random DAGs in which handles are used while untracked and while tracked (start/stop_tracking between uses, untracked() results); control-flow: programs written statement by statement against the library where every next statement (operation, operands, loop exit) is decided from values read back from the library's own newest array (values(), indexing, sum_all); dag-long: random DAGs of 100..300 nodes; dag-big: 2..6 operations on arrays of up to 2500 elements; conv-graphs: a conv of a conv, one set of filters on two images, the same conv twice, a conv of a reshaped view, conv + bias + relu + reduction; deep-chain: multiplication chains of depth 500 / 2000 / 30000 / 100000 differentiated in a process of their own on an 8 MiB stack. Seeds omitted / ones / non-uniform integers. Non-trivial = some \
           tracked leaf received a non-zero gradient and the graph has at least two root-to-leaf paths; distinct = \
           distinct (program text without data, seed kind).",
    floors,
    exhaustive: |t| Some(if t == Tier::Thorough {
        "family topo: all 1,769,474 topologies with <=4 operation nodes over {neg,add,mul,custom_mul} x 3 tracked masks"
    } else {
        "family topo: all 22,274 topologies with <=3 operation nodes over {neg,add,mul,custom_mul} x 3 tracked masks"
    }),
    assumptions: &[
        "forward-mode dual numbers over refmodel.rs define the seed-weighted sum of partial derivatives",
        "relu kinks (input exactly 0) are excluded from gradient verdicts",
        "seeds are plain untracked arrays of the result's shape",
    ],
};

// number of topologies with exactly n op nodes: prod_{i<n} ((2+i) + 3(2+i)^2)
const T1: u64 = 14;
const T2: u64 = 14 * 30;
const T3: u64 = 14 * 30 * 52;
const T4: u64 = 14 * 30 * 52 * 80;

fn families(t: Tier) -> Vec<(&'static str, u64)> {
    vec![
        ("topo", 3 * (T1 + T2 + T3 + t.n(0, T4))),
        ("dag-exact", t.n(40_000, 1_000_000)),
        ("dag-smooth", t.n(25_000, 600_000)),
        ("readme", t.n(3_000, 60_000)),
        ("chain", t.n(400, 6_000)),
        ("fanin", t.n(600, 20_000)),
        ("dag-toggles", t.n(10_000, 400_000)),
        ("control-flow", t.n(6_000, 300_000)),
        ("conv-graphs", t.n(3_000, 200_000)),
        ("dag-long", t.n(80, 4_000)),
        ("dag-big", t.n(120, 6_000)),
        ("deep-chain", 4),
    ]
}
fn floors(_t: Tier) -> Vec<(&'static str, u64)> {
    vec![
        ("evaluations", 60_000),
        ("distinct_nontrivial", 20_000),
        ("leaf_gradients_compared", 80_000),
        ("programs_with_sharing_and_broadcast", 500),
        ("programs_with_custom_ops", 3_000),
        ("programs_with_untracked_leaf", 3_000),
        ("decisions_from_library_values", 20_000),
    ]
}

/// decode topology index (within programs of exactly n ops) into a program
fn topo_program(mut idx: u64, n_ops: usize, mask: usize, r: &mut Rng) -> Program {
    let mut p = Program::default();
    let masks = [(true, true), (true, false), (false, true)];
    let (ta, tb) = masks[mask];
    let va = [r.int(-3, 3), r.int(-3, 3)];
    let vb = [r.int(-3, 3), r.int(1, 3)];
    p.leaf(&[2], &va, ta);
    p.leaf(&[2], &vb, tb);
    for i in 0..n_ops {
        let avail = (2 + i) as u64;
        let per = avail + 3 * avail * avail;
        let c = idx % per;
        idx /= per;
        if c < avail {
            p.op(OpKind::Neg, &[c as usize]);
        } else {
            let c = c - avail;
            let kind = [OpKind::Add, OpKind::Mul, OpKind::CMul][(c / (avail * avail)) as usize].clone();
            let rest = c % (avail * avail);
            p.op(kind, &[(rest / avail) as usize, (rest % avail) as usize]);
        }
    }
    p
}

fn readme_program(r: &mut Rng) -> Program {
    // c = c + a*b; if c[0] > theta { c = c * a }   (decisions taken from the values actually computed)
    let n = r.range(1, 3);
    let dims = vec![n];
    let small = r.chance(1, 2);
    let va: Vec<f64> = (0..n).map(|_| if small { r.int(1, 2) } else { r.int(-3, 5) }).collect();
    let vb: Vec<f64> = (0..n).map(|_| r.int(-3, 3)).collect();
    let vc: Vec<f64> = (0..n).map(|_| r.int(-2, 2)).collect();
    let theta = r.int(-5, 60);
    let iters = r.range(1, if small { 10 } else { 6 });
    let mut p = Program::default();
    let a = p.leaf(&dims, &va, !r.chance(1, 8));
    let b = p.leaf(&dims, &vb, !r.chance(1, 8));
    let mut c = p.leaf(&dims, &vc, true);
    let mut cur: Vec<f64> = vc.clone();
    for _ in 0..iters {
        let ab = p.op(OpKind::Mul, &[a, b]);
        c = p.op(OpKind::Add, &[c, ab]);
        for i in 0..n {
            cur[i] += va[i] * vb[i];
        }
        if cur[0] > theta {
            c = p.op(OpKind::Mul, &[c, a]);
            for i in 0..n {
                cur[i] *= va[i];
            }
        }
        if cur.iter().any(|x| x.abs() > 1e9) {
            break;
        }
    }
    let _ = c;
    p
}

/// Graphs built around several convolutions: a conv of a conv, one set of filters applied to two images, the same
/// convolution written twice, a conv of a reshaped view, conv + per-filter bias + relu + reduction.
fn conv_program(r: &mut Rng) -> Program {
    let mut p = Program::default();
    let (d, cnt) = (r.range(1, 2), r.range(1, 3));
    let (fr, fc) = (r.range(1, 2), r.range(1, 3));
    let (sr, sc) = (r.range(1, 2), r.range(1, 2));
    let (h, w) = (fr + r.range(1, 3), fc + r.range(1, 3));
    let batch: Vec<usize> = match r.below(3) {
        0 => vec![],
        1 => vec![1],
        _ => vec![2],
    };
    let di: Vec<usize> = [&batch[..], &[d, h, w]].concat();
    let df = vec![cnt, d, fr, fc];
    let ints = |r: &mut Rng, n: usize| -> Vec<f64> { (0..n).map(|_| r.int(-2, 2)).collect() };
    let ni: usize = di.iter().product();
    let nf: usize = df.iter().product();
    let tx = !r.chance(1, 4);
    let tf_ = !r.chance(1, 4) || !tx;
    let vi = ints(r, ni);
    let x = p.leaf(&di, &vi, tx);
    let vf = ints(r, nf);
    let f = p.leaf(&df, &vf, tf_);
    match r.below(5) {
        0 => {
            // conv of a conv (1x1 or 1x2 filters on the feature maps)
            let y = p.op(OpKind::Conv { sr, sc }, &[x, f]);
            let c2 = r.range(1, 2);
            let df2 = vec![c2, cnt, 1, 1];
            let v2 = ints(r, c2 * cnt);
            let f2 = p.leaf(&df2, &v2, !r.chance(1, 4));
            p.op(OpKind::Conv { sr: 1, sc: 1 }, &[y, f2]);
        }
        1 => {
            // one set of filters, two images, results combined
            let v2 = ints(r, ni);
            let x2 = p.leaf(&di, &v2, !r.chance(1, 3));
            let y1 = p.op(OpKind::Conv { sr, sc }, &[x, f]);
            let y2 = p.op(OpKind::Conv { sr, sc }, &[x2, f]);
            let k = [OpKind::Add, OpKind::Mul, OpKind::Sub][r.below(3)].clone();
            p.op(k, &[y1, y2]);
        }
        2 => {
            // the same convolution written twice
            let y1 = p.op(OpKind::Conv { sr, sc }, &[x, f]);
            let y2 = p.op(OpKind::Conv { sr, sc }, &[x, f]);
            p.op(OpKind::Mul, &[y1, y2]);
        }
        3 => {
            // conv of a reshaped view of a flat array
            let vflat = ints(r, ni);
            let flat = p.leaf(&[ni], &vflat, true);
            let v = p.op(OpKind::Reshape(di.clone()), &[flat]);
            let y = p.op(OpKind::Conv { sr, sc }, &[v, f]);
            let z = p.op(OpKind::Conv { sr, sc }, &[x, f]);
            p.op(OpKind::Add, &[y, z]);
        }
        _ => {
            // the layer form: conv + one bias per filter, relu, reduced over the positions
            let vb = ints(r, cnt);
            let b = p.leaf(&[cnt, 1, 1], &vb, true);
            let y = p.op(OpKind::Conv { sr, sc }, &[x, f]);
            let z = p.op(OpKind::Add, &[y, b]);
            let a = p.op(OpKind::Relu, &[z]);
            p.op(OpKind::Sum(2), &[a]);
        }
    }
    p
}

fn chain_program(r: &mut Rng, k: u64) -> Program {
    let depth = 2 + (k % 59) as usize;
    let n = r.range(1, 3);
    let v: Vec<f64> = (0..n).map(|_| if r.chance(1, 2) { 1.0 } else { -1.0 }).collect();
    let mut p = Program::default();
    let mut cur = p.leaf(&[n], &v, true);
    for i in 0..depth {
        let kind = if i % 3 == 2 { OpKind::CMul } else { OpKind::Mul };
        cur = p.op(kind, &[cur, cur]);
    }
    p
}

fn fanin_program(r: &mut Rng) -> Program {
    let width = r.range(2, 16);
    let n = r.range(1, 3);
    let mut p = Program::default();
    let x = p.leaf(&[n], &(0..n).map(|_| r.int(-3, 3)).collect::<Vec<_>>(), true);
    let y = p.leaf(&[n], &(0..n).map(|_| r.int(-3, 3)).collect::<Vec<_>>(), !r.chance(1, 4));
    let mut terms = vec![];
    for i in 0..width {
        let t = match i % 4 {
            0 => p.op(OpKind::Mul, &[x, y]),
            1 => p.op(OpKind::Scale(r.int(-2, 3)), &[x]),
            2 => p.op(OpKind::CMul, &[x, x]),
            _ => p.op(OpKind::Sub, &[y, x]),
        };
        terms.push(t);
    }
    let mut acc = terms[0];
    for t in &terms[1..] {
        acc = p.op(OpKind::Add, &[acc, *t]);
    }
    p
}

pub fn gen(ctx: &Ctx, fam: &str, k: u64, r: &mut Rng) -> Program {
    match fam {
        "topo" => {
            let mask = (k % 3) as usize;
            let mut idx = k / 3;
            if idx < T1 {
                topo_program(idx, 1, mask, r)
            } else if {
                idx -= T1;
                idx < T2
            } {
                topo_program(idx, 2, mask, r)
            } else if {
                idx -= T2;
                idx < T3
            } {
                topo_program(idx, 3, mask, r)
            } else {
                idx -= T3;
                topo_program(idx, 4, mask, r)
            }
        }
        "dag-exact" => {
            let mut cfg = GenCfg::exact();
            cfg.max_ops = if ctx.tier == Tier::Thorough { 12 } else { 10 };
            // a quarter of the programs live in rank 4 (small dims), so that results of every rank 1..4 occur
            if r.chance(1, 4) {
                cfg.max_rank = 4;
                cfg.max_dim = 2;
            } else if r.chance(1, 6) {
                // larger arrays (up to 64 elements)
                cfg.max_rank = 2;
                cfg.max_dim = 8;
            }
            gen_program(r, &cfg)
        }
        "dag-smooth" => {
            let mut cfg = GenCfg::smooth();
            cfg.max_ops = 8;
            if r.chance(1, 4) {
                cfg.max_rank = 4;
                cfg.max_dim = 2;
            }
            gen_program(r, &cfg)
        }
        "dag-toggles" => {
            // the same array used through an untracked and a tracked handle in one graph (a detached alias, a frozen
            // parameter that is unfrozen later), untracked()/tracked() intermediates: derivatives flow along operands
            // that were tracked when used, and only along those
            let mut cfg = GenCfg::exact();
            cfg.toggles = true;
            cfg.untracked_eighths = 3;
            cfg.max_ops = 10;
            let mut p = gen_program(r, &cfg);
            let root = p.root();
            for i in [root, p.base(root)] {
                if let Node::Op { post, .. } = &mut p.nodes[i] {
                    if *post == Some(false) {
                        *post = None;
                    }
                }
            }
            p
        }
        "readme" => readme_program(r),
        "conv-graphs" => conv_program(r),
        "dag-big" => {
            // a few operations on arrays of a thousand and more elements (buffers past any pooling / blocking threshold)
            let mut cfg = GenCfg::exact();
            cfg.max_leaves = 2;
            cfg.min_ops = 2;
            cfg.max_ops = 6;
            cfg.max_rank = 2;
            cfg.max_dim = 40;
            cfg.max_numel = 2_500;
            cfg.conv = false;
            cfg.custom_ops = r.chance(1, 2);
            cfg.untracked_eighths = 1;
            if r.chance(1, 2) {
                // square operands of one of two sizes: products, sums and gradients of case after case have the very
                // same element counts (what a buffer pool would hand from one to the next)
                let n = *r.pick(&[32usize, 36]);
                return gen_program_with_base(r, &cfg, &[n, n]);
            }
            gen_program(r, &cfg)
        }
        "dag-long" => {
            // graphs of a hundred to three hundred nodes over a few small leaves
            let mut cfg = GenCfg::exact();
            cfg.min_ops = 100;
            cfg.max_ops = 300;
            cfg.max_rank = 2;
            cfg.conv = false;
            cfg.untracked_eighths = 2;
            gen_program(r, &cfg)
        }
        "chain" => chain_program(r, k),
        _ => fanin_program(r),
    }
}

const DEEP: [usize; 4] = [500, 2_000, 30_000, 100_000];

/// Data-dependent control flow: the program is written step by step against the library, and what it does next is
/// decided from values READ OFF THE LIBRARY'S OWN ARRAYS (values(), indexing, sum_all of the newest result): which
/// operation to apply to which operands, whether to go on, whether to leave a loop. The reference then evaluates the
/// program that was actually built. (On exact-class data both sides agree bit for bit, so a wrong value read back
/// is caught as a value mismatch of that node, not as a divergence of the two executions.)
fn run_control_flow(ctx: &mut Ctx, r: &mut Rng) {
    use crate::cg::*;
    use crate::history::Hist;
    let exact_data = r.chance(3, 4);
    let mut cfg = if exact_data { GenCfg::exact() } else { GenCfg::smooth() };
    cfg.max_ops = 100;
    cfg.untracked_eighths = 2;
    let mut h = match Hist::new(r, &cfg, false) {
        Ok(h) => h,
        Err(_) => return,
    };
    let budget = r.range(3, 14);
    let mut decisions = 0u64;
    let mut kinds: Vec<&'static str> = vec![];
    for step in 0..budget {
        if !h.failures.is_empty() {
            break;
        }
        // read the newest live array back from the library
        let newest = match h.live().last().copied() {
            Some(n) => n,
            None => break,
        };
        let (digest, largest, first) = {
            let a = h.handles[newest].as_ref().unwrap();
            let v = a.values();
            let idx0: Vec<usize> = vec![0; a.dimensions().len()];
            let first = a[idx0] as f64;
            let _total = a.sum_all() as f64;
            let largest = v.iter().fold(0.0f64, |m, x| m.max((*x as f64).abs()));
            let mut d: u64 = 0xcbf29ce484222325;
            for x in v.iter() {
                // decisions depend on a coarse view of the data (sign and magnitude class), as user code would
                let c = if *x > 0.0 { 1 } else if *x < 0.0 { 2 } else { 3 } as u64 + if x.abs() > 4.0 { 8 } else { 0 };
                d = (d ^ c).wrapping_mul(0x100000001b3);
            }
            (d, largest, first)
        };
        decisions += 1;
        // `while total < bound`: leave the loop early when the running result has grown past a threshold
        // (threshold 100: whatever single operation follows stays exactly representable in single precision too, so the
        // f32 and f64 builds take the same decisions on integer data and C19 can compare their per-case metadata)
        if largest > 100.0 {
            kinds.push("loop-exit-on-magnitude");
            break;
        }
        // `if first > 0 { ... } else { ... }`: the branch picks the generator stream for the next statement
        let mut r2 = Rng::new(digest ^ if first > 0.0 { 0x9e3779b97f4a7c15 } else { 0x2545f4914f6cdd1d } ^ step as u64);
        kinds.push(if first > 0.0 { "branch-positive" } else { "branch-non-positive" });
        h.build(&mut r2, &cfg);
    }
    let live_ops = h.live_ops();
    let root = match live_ops.last().copied() {
        Some(x) => x,
        None => return,
    };
    let seed = rand_seed(r, h.st.refv[root].v.len());
    h.pass(root, &seed, r.chance(1, 4), false);
    h.check_slots();
    let p = &h.st.p;
    let desc = format!("control-flow|{}|{}", p.desc(), seed.name());
    ctx.case(&desc, p.max_fanout() >= 2 || p.path_count() >= 2.0);
    ctx.count("decisions_from_library_values", decisions);
    ctx.count("leaf_gradients_compared", h.slot_checks);
    ctx.hist("family", "control-flow");
    for k in &kinds {
        ctx.hist("control_flow_decisions", k);
    }
    ctx.hist("depth", &format!("{:02}", p.depth().min(64)));
    ctx.sample("control-flow", || format!("{} seed={:?}", h.text(), seed));
    // on non-integer data a decision may legitimately differ between float widths (a value within rounding of 0 or 4)
    ctx.meta(|| if exact_data { format!("{} {:?}", desc, h.handles.iter().map(|x| x.as_ref().map(|a| a.dimensions().to_vec())).collect::<Vec<_>>()) } else { "control-flow|smooth-data".to_string() });
    if p.nodes.iter().any(|n| matches!(n, Node::Op { kind, .. } if kind.is_custom())) {
        ctx.count("programs_with_custom_ops", 1);
    }
    if p.nodes.iter().any(|n| matches!(n, Node::Leaf { tracked: false, .. })) {
        ctx.count("programs_with_untracked_leaf", 1);
    }
    for f in &h.failures {
        let cls = if f.kind.ends_with("panic") { format!("{}:{}", f.kind, panic_class(f.detail.split("panicked: ").nth(1).unwrap_or(""))) } else { f.kind.clone() };
        ctx.violation(&format!("C01|control-flow|{}", cls), format!("{}\nhistory: {}", f.detail, h.text()));
    }
}

pub fn run_case(ctx: &mut Ctx, fam: &str, k: u64, r: &mut Rng) {
    if fam == "deep-chain" {
        // "any depth": the pass must not need stack proportional to the depth of the graph
        let depth = DEEP[k as usize % DEEP.len()];
        ctx.case(&format!("deep-chain|{}", depth), true);
        ctx.count("deep_chain_probes", 1);
        ctx.sample("deep-chain", || format!("x = a * 1 repeated {} times on an 8 MiB stack; backward(None); drop", depth));
        match deep_chain_probe(depth, "backward") {
            Ok(None) => ctx.meta(|| format!("deep-chain {} ok", depth)),
            Ok(Some((kind, detail))) => {
                ctx.meta(|| format!("deep-chain {} {}", depth, kind));
                ctx.violation(&format!("C01|deep-chain|{}|depth={}|stack=8MiB", kind, depth), detail)
            }
            Err(e) => ctx.count(&format!("deep_chain_probe_unavailable({})", e.chars().take(30).collect::<String>()), 1),
        }
        return;
    }
    if fam == "control-flow" {
        return run_control_flow(ctx, r);
    }
    let p = gen(ctx, fam, k, r);
    let rr = match eval_ref_plain(&p) {
        Some(x) => x,
        None => {
            ctx.count("generator_rejects", 1);
            return;
        }
    };
    let root = p.root();
    let seed = if fam == "chain" { SeedMode::Omitted } else { rand_seed(r, rr.vals[root].v.len()) };
    let o = run_and_check(&p, &seed, &CheckOpts::default());
    if o.out_of_domain {
        ctx.count("generator_rejects", 1);
        return;
    }
    let paths = p.path_count();
    let desc = format!("{}|{}", p.desc(), seed.name());
    ctx.case(&desc, o.nonzero_grads > 0 && paths >= 2.0);
    ctx.count("leaf_gradients_compared", o.grads_compared);
    ctx.count("interior_gradients_compared", o.interior_compared);
    ctx.count("gradient_elements_compared", o.grad_elements);
    ctx.count(if o.exact { "cases_exact_rule" } else { "cases_tolerance_rule" }, 1);
    if o.kink {
        ctx.count("skipped_kink", 1);
    }
    let shapes: Vec<Vec<usize>> = rr.vals.iter().map(|t| t.dims.clone()).collect();
    let sharing = p.max_fanout() >= 2;
    if sharing && p.has_broadcast(&shapes) {
        ctx.count("programs_with_sharing_and_broadcast", 1);
    }
    if p.has_self_use() {
        ctx.count("programs_with_self_use", 1);
    }
    if p.nodes.iter().any(|n| matches!(n, Node::Op { kind, .. } if kind.is_custom())) {
        ctx.count("programs_with_custom_ops", 1);
    }
    if p.nodes.iter().any(|n| matches!(n, Node::Leaf { tracked: false, .. })) {
        ctx.count("programs_with_untracked_leaf", 1);
    }
    ctx.hist("family", fam);
    ctx.hist("max_fanout", &format!("{:02}", p.max_fanout().min(20)));
    ctx.hist("depth", &format!("{:02}", p.depth().min(64)));
    ctx.hist("log2_paths", &format!("{:02}", (paths.max(1.0).log2().floor() as usize).min(64)));
    ctx.hist("seed_kind", seed.name());
    for n in &p.nodes {
        if let Node::Op { kind, .. } = n {
            ctx.hist("ops_used", kind.family());
        }
    }
    ctx.fmax("gradient", o.worst_grad_err);
    ctx.fmax("value", o.worst_value_err);
    ctx.sample(fam, || format!("{} seed={:?} paths={}", p.pretty(), seed, paths));
    ctx.meta(|| format!("{} {}", desc, o.meta));
    for f in &o.failures {
        let cls = if f.kind.ends_with("panic") { format!("{}:{}", f.kind, panic_class(f.detail.split("panicked: ").nth(1).unwrap_or(""))) } else { f.kind.clone() };
        // signature: family + failure kind + operation that produced the failing node (if any)
        let opname = match p.nodes.get(f.node) {
            Some(Node::Op { kind, .. }) => kind.family(),
            _ => "leaf",
        };
        ctx.violation(
            &format!("C01|{}|{}|{}", fam, cls, opname),
            format!("{}\nprogram: {}\nseed: {:?}", f.detail, p.pretty(), seed),
        );
    }
}
