//! C02 - each operation's derivative equals its mathematical definition (single-operation programs).
//!
//! Oracle: forward-mode dual numbers on the reference model (J^T s by one tangent run per operand element),
//! bit-exact for integer data on polynomial operations, scaled tolerance otherwise.

use super::common::*;
use super::shapes::*;
use super::CheckDef;
use crate::cg::*;
use crate::ctx::{panic_class, Ctx, Tier};
use crate::program::*;
use crate::refmodel::*;
use crate::rng::Rng;

pub static DEF: CheckDef = CheckDef {
    id: "C02",
    families,
    run_case,
    rule: "one-operation programs. unary: every shape (rank 1..4, dims 1..3) x every unary operation/parameter \
           (powf exponents -2,-1,-0.5,0.5,1,2,3,3.5; sum k=0..rank; reshape targets); binary: every admissible \
           ordered shape pair of that grid x {add,mul} plus a rotating third of {sub,div,axpy}; matmul: sizes 1..3^3 \
           x 4 transpose combinations x leading-dimension patterns x additive-term forms x rank-1 forms; conv: \
           strides 1..3^2 x filters 1..3^2 x image sizes x depth x count x batch forms. Every operand tracked alone \
           and together, seeds omitted/ones/non-uniform integers. Non-trivial = at least one tracked operand \
           received a gradient with a non-zero element; distinct = distinct (operation, parameters, operand shapes, \
           tracked mask, seed kind).",
    floors,
    exhaustive: |_| None,
    assumptions: &[
        "forward-mode dual numbers over refmodel.rs define the derivative of each operation",
        "relu inputs exactly at 0 are excluded from gradient verdicts (sub-gradient choice is not a property)",
    ],
};

fn families(t: Tier) -> Vec<(&'static str, u64)> {
    vec![
        ("unary", t.n(12_000, 600_000)),
        ("binary", t.n(14_400 * 5, 14_400 * 10)),
        ("matmul", t.n(20_000, 1_000_000)),
        ("conv", t.n(10_000, 500_000)),
        ("large", t.n(600, 100_000)),
    ]
}
fn floors(_t: Tier) -> Vec<(&'static str, u64)> {
    vec![("evaluations", 15_000), ("gradients_compared", 15_000), ("distinct_nontrivial", 2_000)]
}

const POWF_EXP: [f64; 9] = [-2.0, -1.0, -0.5, 0.5, 1.0, 2.0, 3.0, 3.5, 0.0];

pub fn mask_name(mask: &[bool]) -> String {
    mask.iter().map(|b| if *b { 'T' } else { 'U' }).collect()
}

/// all non-empty tracked masks over n operands, indexed
pub fn mask_of(n: usize, idx: usize) -> Vec<bool> {
    let m = 1 + idx % ((1 << n) - 1);
    (0..n).map(|i| m >> i & 1 == 1).collect()
}

pub struct OpCase {
    /// operand 1 is the very same array as operand 0 (x * x, the Gram forms of matmul)
    pub same: bool,
    pub kind: OpKind,
    pub dims: Vec<Vec<usize>>,
    pub vals: Vec<Vec<f64>>,
    pub mask: Vec<bool>,
    pub cell: String,
}

impl OpCase {
    pub fn program(&self) -> Program {
        let mut p = Program::default();
        let mut args = vec![];
        for i in 0..self.dims.len() {
            if self.same && i == 1 {
                args.push(args[0]);
                continue;
            }
            // (Gram form with a square array: the additive term may be that very array as well)
            if self.same && i == 2 && self.dims[2] == self.dims[0] && self.cell.ends_with("|same3") {
                args.push(args[0]);
                continue;
            }
            args.push(p.leaf(&self.dims[i], &self.vals[i], self.mask[i]));
        }
        p.op(self.kind.clone(), &args);
        p
    }
}

pub fn gen_unary(r: &mut Rng, k: u64) -> OpCase {
    let shapes = all_shapes(4, 3);
    let d = shapes[(k % 120) as usize].clone();
    let which = (k / 120) as usize;
    let n = numel(&d);
    // operation table; index rotates with k so that every (shape, op) cell is visited
    let rank = d.len();
    let mut table: Vec<(OpKind, u8)> = vec![
        (OpKind::Neg, 0),
        (OpKind::Scale(3.0), 0),
        (OpKind::Scale(-2.0), 0),
        (OpKind::Scale(0.5), 1),
        (OpKind::Ln, 2),
        (OpKind::Exp, 3),
        (OpKind::Recip, 2),
        (OpKind::Relu, 4),
        (OpKind::Sigmoid, 3),
        (OpKind::Softmax, 3),
    ];
    for e in POWF_EXP {
        table.push((OpKind::Powf(e), 2));
    }
    for kk in 0..=rank {
        table.push((OpKind::Sum(kk), 0));
    }
    // reshape targets: all ordered factorizations into <= 3 factors
    let mut targets: Vec<Vec<usize>> = vec![vec![n]];
    for a in 1..=n {
        if n % a == 0 {
            targets.push(vec![a, n / a]);
            for b in 1..=(n / a) {
                if (n / a) % b == 0 {
                    targets.push(vec![a, b, n / a / b]);
                }
            }
        }
    }
    let t = targets[r.below(targets.len())].clone();
    table.push((OpKind::Reshape(t), 0));
    let (kind, dom) = table[which % table.len()].clone();
    let vals = match dom {
        0 => rand_ints(r, n, -4, 4),
        1 => (0..n).map(|_| 0.25 * r.int(-12, 12)).collect(),
        // positive arguments far from 1, below the machine epsilon and above its reciprocal: exact powers of two
        2 if r.chance(1, 8) => {
            let lim: i64 = if crate::cg::IS_F32 { 20 } else { 60 };
            (0..n).map(|_| (2.0f64).powi(r.int(-lim, lim) as i32)).collect()
        }
        2 => {
            // integer exponents are defined for negative bases too
            if matches!(kind, OpKind::Powf(e) if e.fract() == 0.0) && r.chance(1, 2) {
                rand_quarters_nz(r, n)
            } else if matches!(kind, OpKind::Recip) && r.chance(1, 2) {
                rand_quarters_nz(r, n)
            } else if matches!(kind, OpKind::Powf(e) if e >= 1.0) && r.chance(1, 3) {
                // exponents >= 1 are differentiable at 0 (derivative 0, or 1 for exponent 1)
                rand_pos(r, n).into_iter().map(|x| if r.chance(1, 3) { 0.0 } else { x }).collect()
            } else {
                rand_pos(r, n)
            }
        }
        // sigmoid is total: far beyond the range in which exp(-x) is finite the value is 0 or 1 and the derivative 0
        3 if kind == OpKind::Sigmoid && r.chance(1, 4) => {
            let ext: &[f64] = if crate::cg::IS_F32 { &[-200.0, -104.0, -90.0, -30.0, 30.0, 90.0, 200.0] } else { &[-2000.0, -746.0, -710.0, -90.0, -30.0, 30.0, 710.0, 2000.0] };
            (0..n).map(|_| *r.pick(ext)).collect()
        }
        3 => (0..n).map(|_| 0.25 * r.int(-12, 12)).collect(),
        _ => (0..n).map(|_| if r.chance(1, 8) { 0.0 } else { let m = r.int(1, 4); if r.chance(1, 2) { m } else { -m } }).collect(),
    };
    let cell = format!("{}|{}", kind.name(), shape_class(&d));
    OpCase { same: false, kind, dims: vec![d], vals: vec![vals], mask: vec![true], cell }
}

pub fn gen_binary(r: &mut Rng, k: u64) -> Option<OpCase> {
    let shapes = all_shapes(4, 3);
    let pair = k % 14_400;
    let round = k / 14_400;
    let da = shapes[(pair / 120) as usize].clone();
    let db = shapes[(pair % 120) as usize].clone();
    bshape(&da, &db)?;
    let ops = [OpKind::Add, OpKind::Mul, OpKind::Sub, OpKind::Div, OpKind::Axpy(-2.0)];
    // five rounds put every operation on every pair (quick and thorough alike)
    let kind = ops[((pair + round) % 5) as usize].clone();
    let va = rand_ints(r, numel(&da), -4, 4);
    let vb = if kind == OpKind::Div { if r.chance(1, 2) { rand_pos(r, numel(&db)) } else { rand_quarters_nz(r, numel(&db)) } } else { rand_ints(r, numel(&db), -4, 4) };
    let mask = mask_of(2, r.below(3));
    let cell = format!("{}|{}", kind.family(), super::c04::pair_class(&da, &db));
    // the same array as both operands (x * x, x - x, x / x, axpy(a, x, x))
    if da == db && r.chance(1, 4) {
        let v = if kind == OpKind::Div { vb.clone() } else { va.clone() };
        return Some(OpCase { same: true, kind, dims: vec![da, db], vals: vec![v.clone(), v], mask: vec![true, true], cell: format!("{}|same-operand", cell.split('|').next().unwrap_or("")) });
    }
    Some(OpCase { same: false, kind, dims: vec![da, db], vals: vec![va, vb], mask, cell })
}

/// leading-dimension patterns for batched matmul: (lead of a, lead of b)
pub fn lead_pattern(r: &mut Rng, idx: usize) -> (Vec<usize>, Vec<usize>, &'static str) {
    let l1 = r.range(2, 3);
    let l2 = r.range(2, 3);
    match idx % 14 {
        10 => (vec![l1, l2], vec![], "a2-only"),
        11 => (vec![], vec![l1, l2], "b2-only"),
        12 => (vec![l1, l2], vec![1, 1], "unit-b2"),
        13 => (vec![l1, 1], vec![l1, l2], "part-unit-a"),
        0 => (vec![], vec![], "none"),
        1 => (vec![l1], vec![l1], "equal1"),
        2 => (vec![l1], vec![], "a-only"),
        3 => (vec![], vec![l1], "b-only"),
        4 => (vec![1], vec![l1], "unit-a"),
        5 => (vec![l1], vec![1], "unit-b"),
        6 => (vec![l1, l2], vec![l1, l2], "equal2"),
        7 => (vec![l1, 1], vec![1, l2], "cross-unit"),
        8 => (vec![l1, l2], vec![l2], "rank-diff"),
        _ => (vec![1, l2], vec![l1, l2], "unit-a2"),
    }
}

pub fn gen_matmul(r: &mut Rng, k: u64) -> OpCase {
    let mut k = k as usize;
    let form = k % 16;
    k /= 16;
    if form >= 14 {
        if k % 5 == 4 {
            // Gram forms: the same array in both slots with opposite transposes (a a^T, a^T a), optionally batched
            let (m, kk) = (r.range(1, 3), r.range(1, 3));
            let lead: Vec<usize> = if r.chance(1, 3) { vec![r.range(2, 3)] } else { vec![] };
            let ta = r.chance(1, 2);
            let mut da = lead.clone();
            da.extend(&[m, kk]);
            let n = if ta { kk } else { m };
            let with_c = r.chance(1, 3);
            // one array as all three arguments: needs a square, unbatched one
            let same3 = with_c && m == kk && lead.is_empty() && r.chance(1, 2);
            let mut dims = vec![da.clone(), da.clone()];
            if with_c {
                dims.push(if same3 { da.clone() } else { vec![n] });
            }
            let v = rand_ints(r, numel(&da), -3, 3);
            let mut vals = vec![v.clone(), v.clone()];
            if with_c {
                vals.push(if same3 { v } else { rand_ints(r, n, -3, 3) });
            }
            let nops = dims.len();
            let mut mask = mask_of(nops, r.below((1 << nops) - 1));
            mask[0] = true;
            mask[1] = true;
            if same3 {
                mask[2] = true;
            }
            return OpCase { same: true, kind: OpKind::Matmul { ta, tb: !ta, c: with_c }, dims, vals, mask, cell: format!("matmul|gram|t{}{}{}", ta as u8, !ta as u8, if same3 { "|same3" } else { "" }) };
        }
        return gen_matmul_rank1(r, k);
    }
    let (la, lb, lname) = lead_pattern(r, form);
    let ta = k % 2 == 1;
    k /= 2;
    let tb = k % 2 == 1;
    k /= 2;
    let cform = k % 5;
    k /= 5;
    let m = 1 + k % 3;
    k /= 3;
    let kk = 1 + k % 3;
    k /= 3;
    let n = 1 + k % 3;
    let mut da = la.clone();
    if ta {
        da.extend(&[kk, m])
    } else {
        da.extend(&[m, kk])
    }
    let mut db = lb.clone();
    if tb {
        db.extend(&[n, kk])
    } else {
        db.extend(&[kk, n])
    }
    let dc: Option<Vec<usize>> = match cform {
        0 => None,
        1 => Some(vec![n]),
        2 => Some(vec![m, n]),
        3 => Some(vec![1, n]),
        _ => Some(vec![1]),
    };
    let mut dims = vec![da.clone(), db.clone()];
    let mut vals = vec![rand_ints(r, numel(&da), -3, 3), rand_ints(r, numel(&db), -3, 3)];
    if let Some(dc) = &dc {
        dims.push(dc.clone());
        vals.push(rand_ints(r, numel(dc), -3, 3));
    }
    let nops = dims.len();
    let mask = mask_of(nops, r.below((1 << nops) - 1));
    let cell = format!("matmul|t{}{}|lead-{}|c{}", ta as u8, tb as u8, lname, cform);
    OpCase { same: false, kind: OpKind::Matmul { ta, tb, c: dc.is_some() }, dims, vals, mask, cell }
}

pub fn gen_matmul_rank1(r: &mut Rng, k: usize) -> OpCase {
    let kk = r.range(1, 3);
    let n = r.range(1, 3);
    let lead: Vec<usize> = match r.below(6) {
        0 | 1 => vec![r.range(2, 3)],
        2 => vec![2, r.range(2, 3)],
        _ => vec![],
    };
    let (kind, dims, cell): (OpKind, Vec<Vec<usize>>, String) = match k % 6 {
        // dot product
        0 => (OpKind::Matmul { ta: false, tb: false, c: r.chance(1, 2) }, vec![vec![kk], vec![kk], vec![1]], "matmul|dot".into()),
        // vector (one-row matrix) x matrix
        1 => {
            let mut db = lead.clone();
            db.extend(&[kk, n]);
            (OpKind::Matmul { ta: false, tb: false, c: r.chance(1, 2) }, vec![vec![kk], db, vec![n]], "matmul|vec-mat".into())
        }
        // vector x matrix^T (the dense layer form)
        2 => {
            let mut db = lead.clone();
            db.extend(&[n, kk]);
            (OpKind::Matmul { ta: false, tb: true, c: r.chance(1, 2) }, vec![vec![kk], db, vec![n]], "matmul|vec-matT".into())
        }
        // vector^T (column) x matrix with one row: outer product
        3 => {
            let mut db = lead.clone();
            db.extend(&[1, n]);
            (OpKind::Matmul { ta: true, tb: false, c: r.chance(1, 2) }, vec![vec![kk], db, vec![n]], "matmul|vecT-mat".into())
        }
        // matrix x vector^T : [m,k] x [k]^T -> [m,1]
        4 => {
            let mut da = lead.clone();
            da.extend(&[n, kk]);
            (OpKind::Matmul { ta: false, tb: true, c: r.chance(1, 2) }, vec![da, vec![kk], vec![1]], "matmul|mat-vecT".into())
        }
        // matrix with one column x vector (one-row matrix): [m,1] x [1,k] -> [m,k]
        _ => {
            let mut da = lead.clone();
            da.extend(&[n, 1]);
            (OpKind::Matmul { ta: false, tb: false, c: r.chance(1, 2) }, vec![da, vec![kk], vec![kk]], "matmul|col-vec".into())
        }
    };
    let has_c = matches!(kind, OpKind::Matmul { c: true, .. });
    let dims: Vec<Vec<usize>> = if has_c { dims } else { dims[..2].to_vec() };
    let vals = dims.iter().map(|d| rand_ints(r, numel(d), -3, 3)).collect();
    let nops = dims.len();
    let mask = mask_of(nops, r.below((1 << nops) - 1));
    let cell = if has_c { format!("{}+c", cell) } else { cell };
    OpCase { same: false, kind, dims, vals, mask, cell }
}

pub fn gen_conv(r: &mut Rng, k: u64) -> OpCase {
    let mut k = k as usize;
    let sr = 1 + k % 3;
    k /= 3;
    let sc = 1 + k % 3;
    k /= 3;
    let fr = 1 + k % 3;
    k /= 3;
    let fc = 1 + k % 3;
    k /= 3;
    let bform = k % 4;
    let h = fr + r.below(4);
    let w = fc + r.below(4);
    let d = r.range(1, 2);
    let cnt = r.range(1, 3);
    let batch: Vec<usize> = match bform {
        0 => vec![],
        1 => vec![1],
        2 => vec![r.range(2, 3)],
        _ => vec![2, 2],
    };
    let mut di = batch.clone();
    di.extend(&[d, h, w]);
    let df = vec![cnt, d, fr, fc];
    let overlap = (sr < fr && h > fr) || (sc < fc && w > fc);
    let even = (h - fr) % sr == 0 && (w - fc) % sc == 0;
    let cell = format!(
        "conv|batch-{}|{}|{}",
        ["none", "1", "N", "NxN"][bform],
        if overlap { "overlap" } else { "disjoint" },
        if even { "divides" } else { "remainder" }
    );
    let vals = vec![rand_ints(r, numel(&di), -3, 3), rand_ints(r, numel(&df), -3, 3)];
    let mask = mask_of(2, r.below(3));
    OpCase { same: false, kind: OpKind::Conv { sr, sc }, dims: vec![di, df], vals, mask, cell }
}

/// operations at sizes beyond small blocking thresholds: matmul 5..12, conv images up to 10 with filters up to 4,
/// reductions and maps over rows of 17..40 elements
pub fn gen_large(r: &mut Rng, k: u64) -> OpCase {
    match k % 4 {
        0 => {
            let (mut m, mut kk, mut n) = (r.range(5, 12), r.range(5, 12), r.range(5, 12));
            // now and then one of the three sizes crosses a block size of 16 / 32 / 64
            match r.below(8) {
                0 => m = *r.pick(&[16, 17, 31, 33, 64, 65]),
                1 => kk = *r.pick(&[16, 17, 31, 33, 64, 65]),
                2 => n = *r.pick(&[16, 17, 31, 33, 64, 65]),
                _ => {}
            }
            let (ta, tb) = (r.chance(1, 2), r.chance(1, 2));
            let lead: Vec<usize> = if r.chance(1, 3) { vec![2] } else { vec![] };
            let mut da = lead.clone();
            if ta { da.extend(&[kk, m]) } else { da.extend(&[m, kk]) }
            let mut db = if r.chance(1, 2) { lead.clone() } else { vec![] };
            if tb { db.extend(&[n, kk]) } else { db.extend(&[kk, n]) }
            let with_c = r.chance(1, 2);
            let mut dims = vec![da.clone(), db.clone()];
            if with_c { dims.push(vec![n]); }
            let vals = dims.iter().map(|d| rand_ints(r, numel(d), -2, 2)).collect();
            let nops = dims.len();
            OpCase { same: false, kind: OpKind::Matmul { ta, tb, c: with_c }, dims, vals, mask: mask_of(nops, r.below((1 << nops) - 1)), cell: "large|matmul".into() }
        }
        1 => {
            let (fr, fc) = (r.range(1, 5), r.range(1, 5));
            let (h, w) = if r.chance(1, 5) { (fr + r.below(3), fc + r.range(8, 20)) } else { (fr + r.below(7), fc + r.below(7)) };
            let (sr, sc) = (if r.chance(1, 5) { r.range(4, 6) } else { r.range(1, 3) }, if r.chance(1, 5) { r.range(4, 6) } else { r.range(1, 3) });
            let d = r.range(1, 4);
            let cnt = r.range(1, 5);
            let mut di: Vec<usize> = match r.below(6) { 0 | 1 => vec![2], 2 => vec![r.range(5, 6)], 3 => vec![2, 3], _ => vec![] };
            di.extend(&[d, h, w]);
            let df = vec![cnt, d, fr, fc];
            let vals = vec![rand_ints(r, numel(&di), -2, 2), rand_ints(r, numel(&df), -2, 2)];
            OpCase { same: false, kind: OpKind::Conv { sr, sc }, dims: vec![di, df], vals, mask: mask_of(2, r.below(3)), cell: "large|conv".into() }
        }
        2 => {
            let n = super::shapes::long_dim(r).max(17);
            let d = if r.chance(1, 2) { vec![2, n] } else { vec![n] };
            let kk = r.range(1, d.len());
            let vals = vec![rand_ints(r, numel(&d), -4, 4)];
            OpCase { same: false, kind: OpKind::Sum(kk), dims: vec![d], vals, mask: vec![true], cell: "large|sum".into() }
        }
        _ => {
            let n = super::shapes::long_dim(r).max(17);
            let full = vec![r.range(1, 3), n];
            let db = if r.chance(1, 2) { vec![n] } else { vec![full[0], 1] };
            let kind = [OpKind::Add, OpKind::Mul, OpKind::Sub, OpKind::Axpy(-2.0)][r.below(4)].clone();
            let vals = vec![rand_ints(r, numel(&full), -4, 4), rand_ints(r, numel(&db), -4, 4)];
            OpCase { same: false, kind, dims: vec![full, db], vals, mask: mask_of(2, r.below(3)), cell: "large|elementwise".into() }
        }
    }
}

pub fn gen_case(fam: &str, k: u64, r: &mut Rng) -> Option<OpCase> {
    match fam {
        "unary" => Some(gen_unary(r, k)),
        "binary" => gen_binary(r, k),
        "matmul" => Some(gen_matmul(r, k)),
        "large" => Some(gen_large(r, k)),
        _ => Some(gen_conv(r, k)),
    }
}

pub fn run_case(ctx: &mut Ctx, fam: &str, k: u64, r: &mut Rng) {
    let mut case = match gen_case(fam, k, r) {
        Some(c) => c,
        None => return,
    };
    // now and then one operand with structure a value-dependent shortcut could key on (inside the operation's domain)
    if r.chance(1, 8) {
        let i = r.below(case.dims.len());
        let needs_positive = matches!((&case.kind, i), (OpKind::Div, 1) | (OpKind::Ln, 0) | (OpKind::Recip, 0) | (OpKind::Powf(_), 0)) || (case.same && case.kind == OpKind::Div);
        let v = special_values(r, &case.dims[i]);
        if !needs_positive || v.iter().all(|x| *x > 0.0) {
            case.vals[i] = v;
            case.cell = format!("{}|special-values", case.cell.split('|').next().unwrap_or(""));
        }
    }
    let p = case.program();
    let out_n = match eval_ref_plain(&p) {
        Some(rr) => rr.vals[p.root()].v.len(),
        None => {
            ctx.count("generator_rejects", 1);
            return;
        }
    };
    let seed = rand_seed(r, out_n);
    // one case in five differentiates twice with the same seed: the second pass must add exactly the same again
    let passes = if r.chance(1, 5) { 2 } else { 1 };
    let o = run_and_check(&p, &seed, &CheckOpts { passes, ..Default::default() });
    let desc = format!("{}|{}|{}{}", p.desc(), mask_name(&case.mask), seed.name(), if passes == 2 { "|x2" } else { "" });
    ctx.case(&desc, o.nonzero_grads > 0);
    ctx.hist("cells", &case.cell);
    ctx.count("gradients_compared", o.grads_compared);
    ctx.count("gradient_elements_compared", o.grad_elements);
    ctx.count(if o.exact { "cases_exact_rule" } else { "cases_tolerance_rule" }, 1);
    if o.kink {
        ctx.count("skipped_kink", 1);
    }
    ctx.fmax("gradient", o.worst_grad_err);
    ctx.fmax("value", o.worst_value_err);
    ctx.hist("seed_kind", seed.name());
    ctx.sample(&case.cell.split('|').next().unwrap_or("").to_string(), || format!("{} seed={:?}", p.pretty(), seed));
    ctx.meta(|| format!("{} {}", desc, o.meta));
    for f in &o.failures {
        let cls = if f.kind.ends_with("panic") { format!("{}:{}", f.kind, panic_class(&f.detail.split("panicked: ").nth(1).unwrap_or(""))) } else { f.kind.clone() };
        ctx.violation(
            &format!("C02|{}|{}", case.cell, cls),
            format!("{}\nprogram: {}\nseed: {:?}", f.detail, p.pretty(), seed),
        );
    }
    // convolution: right afterwards the same filters on an image one row taller (or shorter) / one column wider - what
    // the previous call computed about its geometry is of no use to this one
    if let OpKind::Conv { .. } = case.kind {
        if o.failures.is_empty() {
            let mut sib = OpCase { same: false, kind: case.kind.clone(), dims: case.dims.clone(), vals: case.vals.clone(), mask: case.mask.clone(), cell: case.cell.clone() };
            let nd = sib.dims[0].len();
            let fr = sib.dims[1][2];
            if r.chance(1, 2) {
                sib.dims[0][nd - 2] = if sib.dims[0][nd - 2] > fr && r.chance(1, 2) { sib.dims[0][nd - 2] - 1 } else { sib.dims[0][nd - 2] + 1 };
            } else {
                sib.dims[0][nd - 1] += 1;
            }
            sib.vals[0] = rand_ints(r, numel(&sib.dims[0]), -2, 2);
            let p2 = sib.program();
            if let Some(rr2) = eval_ref_plain(&p2) {
                let seed2 = rand_seed(r, rr2.vals[p2.root()].v.len());
                let o2 = run_and_check(&p2, &seed2, &CheckOpts::default());
                ctx.count("conv_sibling_cases", 1);
                ctx.count("gradients_compared", o2.grads_compared);
                for f in &o2.failures {
                    let cls = if f.kind.ends_with("panic") { format!("{}:{}", f.kind, panic_class(&f.detail.split("panicked: ").nth(1).unwrap_or(""))) } else { f.kind.clone() };
                    ctx.violation(
                        &format!("C02|{}|after-another-image-size|{}", case.cell, cls),
                        format!("{}\nprogram (run right after the same convolution on an image of dims {:?}): {}\nseed: {:?}", f.detail, case.dims[0], p2.pretty(), seed2),
                    );
                }
            }
        }
    }
}
