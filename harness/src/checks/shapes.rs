//! Shape enumeration and generation shared by the checks.

use crate::rng::Rng;

/// All shapes of rank 1..=max_rank with every dimension in 1..=max_dim, in a fixed order.
pub fn all_shapes(max_rank: usize, max_dim: usize) -> Vec<Vec<usize>> {
    let mut out = vec![];
    for r in 1..=max_rank {
        let n = max_dim.pow(r as u32);
        for mut k in 0..n {
            let mut d = vec![0; r];
            for i in (0..r).rev() {
                d[i] = 1 + k % max_dim;
                k /= max_dim;
            }
            out.push(d);
        }
    }
    out
}

pub fn rand_shape(r: &mut Rng, max_rank: usize, max_dim: usize) -> Vec<usize> {
    let rank = r.range(1, max_rank);
    (0..rank).map(|_| r.range(1, max_dim)).collect()
}

/// A long dimension: mostly 9..40, sometimes a power of two or its neighbour (kernel block sizes), sometimes hundreds.
pub fn long_dim(r: &mut Rng) -> usize {
    match r.below(8) {
        0 => r.range(100, 600),
        1 => *r.pick(&[63, 64, 65, 127, 128, 129, 255, 256, 257]),
        2 => *r.pick(&[5, 7, 11, 13, 17, 31, 61]),
        3 if r.chance(1, 2) => r.range(1000, 2100),
        _ => r.range(9, 40),
    }
}
/// A shape of rank 5..6 with small dimensions and unit dimensions in the middle or at the end.
pub fn high_rank_shape(r: &mut Rng) -> Vec<usize> {
    let rank = r.range(5, 6);
    let mut d: Vec<usize> = (0..rank).map(|_| r.range(1, 3)).collect();
    let i = r.range(1, rank - 1);
    d[i] = 1;
    d
}

/// A broadcast partner of `full`: drop leading dims, replace a random subset of dims by 1.
pub fn partner(r: &mut Rng, full: &[usize]) -> Vec<usize> {
    let rank = r.range(1, full.len());
    full[full.len() - rank..].iter().map(|d| if r.chance(1, 3) { 1 } else { *d }).collect()
}

/// Distinct small-integer data: base + i pattern scaled so that a value read from the wrong index cannot
/// coincide with the right one.
pub fn distinct_vals(n: usize, base: i64) -> Vec<f64> {
    (0..n).map(|i| (base + i as i64) as f64).collect()
}

pub fn rand_ints(r: &mut Rng, n: usize, lo: i64, hi: i64) -> Vec<f64> {
    (0..n).map(|_| r.int(lo, hi)).collect()
}

/// strictly positive multiples of 1/4 in [0.25, 4.0]: exactly representable in f32 and f64
pub fn rand_pos(r: &mut Rng, n: usize) -> Vec<f64> {
    (0..n).map(|_| 0.25 * (1 + r.below(16)) as f64).collect()
}

/// non-zero multiples of 1/4 in [-3, 3]
pub fn rand_quarters_nz(r: &mut Rng, n: usize) -> Vec<f64> {
    (0..n)
        .map(|_| {
            let m = 1 + r.below(12) as i64;
            (if r.chance(1, 2) { m } else { -m }) as f64 * 0.25
        })
        .collect()
}
