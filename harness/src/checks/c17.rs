//! C17 - gradients are linear in the seed; an omitted seed means all ones.
//!
//! Metamorphic monitor: three fresh instances of one program run on the real library with s1, s2 and a*s1+b*s2;
//! two more with an omitted seed and with explicit ones. No reference implementation is involved in the relation
//! (the reference only supplies the magnitude scale for the tolerance of non-exact programs).

use super::c01;
use super::CheckDef;
use crate::cg::*;
use crate::ctx::{guard, panic_class, Ctx, Tier};
use crate::program::*;
use crate::refmodel::*;
use crate::rng::Rng;

pub static DEF: CheckDef = CheckDef {
    id: "C17",
    families,
    run_case,
    rule: "programs from the C01 generators (random exact and smooth DAGs, README loop, fan-in, small exhaustive \
           topologies); per program: integer seeds s1, s2, integer coefficients a,b in -3..3; compares every leaf's \
           gradient slot (presence, dims, values) of G(a*s1+b*s2) with a*G(s1)+b*G(s2) and of G(None) with G(ones). \
           Exact (==) when the magnitude shadow certifies integer arithmetic, else |diff| <= tau * (sum of |terms|). \
           Non-trivial = some leaf gradient is non-zero for s1 or s2 and a,b are not both zero; distinct = distinct \
           (program text, coefficient pair).",
    floors,
    exhaustive: |_| None,
    assumptions: &["the relation needs no reference; tolerance scale for non-exact programs comes from the reference's absolute path sums"],
};

fn families(t: Tier) -> Vec<(&'static str, u64)> {
    vec![
        ("topo", t.n(6_000, 66_822)),
        ("dag-exact", t.n(15_000, 1_200_000)),
        ("dag-smooth", t.n(10_000, 900_000)),
        ("readme", t.n(800, 30_000)),
        ("conv-graphs", t.n(800, 40_000)),
        ("fanin", t.n(300, 10_000)),
        // every single operation of C02's grids as the whole program (its adjoint IS the seed)
        ("op-unary", t.n(3_000, 200_000)),
        ("op-binary", t.n(4_000, 200_000)),
        ("op-matmul", t.n(6_000, 400_000)),
        ("op-conv", t.n(3_000, 200_000)),
    ]
}
fn floors(_t: Tier) -> Vec<(&'static str, u64)> {
    vec![("evaluations", 15_000), ("leaf_gradients_compared", 20_000), ("omitted_vs_ones_compared", 10_000)]
}

type Grads = Vec<Option<(Vec<usize>, Vec<f64>)>>;

fn run_with(p: &Program, seed: Option<&[f64]>, dims: &[usize]) -> Result<Grads, String> {
    guard(|| {
        let arrays = eval_corgi(p);
        let root = p.root();
        arrays[root].backward(seed.map(|s| arr(dims, s)));
        p.leaves().iter().map(|l| grad_of(&arrays[*l])).collect()
    })
}

pub fn run_case(ctx: &mut Ctx, fam: &str, k: u64, r: &mut Rng) {
    let p = if let Some(sub) = fam.strip_prefix("op-") {
        match super::c02::gen_case(sub, k, r) {
            Some(c) => c.program(),
            None => return,
        }
    } else {
        c01::gen(ctx, fam, k, r)
    };
    let rr = match eval_ref_plain(&p) {
        Some(x) => x,
        None => return,
    };
    let root = p.root();
    let od = rr.vals[root].dims.clone();
    let n = numel(&od);
    let maxmag = rr.vals.iter().map(|t| t.max_abs()).fold(1.0f64, f64::max);
    if !maxmag.is_finite() {
        return;
    }
    // seeds of very different magnitudes (a delta-dependent shortcut or clip would break linearity)
    let (m1, m2) = (*r.pick(&[1.0, 1.0, 1000.0, 1.0e6]), *r.pick(&[1.0, 1.0, 1000.0]));
    let s1: Vec<f64> = (0..n).map(|_| r.int(-3, 3) * m1).collect();
    let s2: Vec<f64> = (0..n).map(|_| r.int(-3, 3) * m2).collect();
    let (a, b) = (r.int(-3, 3), r.int(-3, 3));
    // one case in five: two uneven seeds whose combination is a constant (or zero, or unit) array - the form a shortcut
    // for uniform adjoints would key on
    let (s2, a, b) = if r.chance(1, 5) {
        let c = *r.pick(&[0.0, 1.0, 1.0, 7.0, -2.0]) * m1;
        (s1.iter().map(|x| c - x).collect::<Vec<f64>>(), 1.0, 1.0)
    } else {
        (s2, a, b)
    };
    let s3: Vec<f64> = s1.iter().zip(&s2).map(|(x, y)| a * x + b * y).collect();
    let ones = vec![1.0; n];
    let runs = (
        run_with(&p, Some(&s1), &od),
        run_with(&p, Some(&s2), &od),
        run_with(&p, Some(&s3), &od),
        run_with(&p, None, &od),
        run_with(&p, Some(&ones), &od),
    );
    let (g1, g2, g3, gn, go) = match runs {
        (Ok(a), Ok(b), Ok(c), Ok(d), Ok(e)) => (a, b, c, d, e),
        (a, b, c, d, e) => {
            let msg = [a.err(), b.err(), c.err(), d.err(), e.err()].into_iter().flatten().next().unwrap_or_default();
            ctx.case(&p.desc(), false);
            ctx.violation(&format!("C17|{}|panic:{}", fam, panic_class(&msg)), format!("a pass panicked: {}\nprogram: {}", msg, p.pretty()));
            return;
        }
    };
    // exactness: integer program and the shadow of the largest seed combination stays below the bound
    let sabs: Vec<f64> = s1.iter().zip(&s2).map(|(x, y)| a.abs() * x.abs().max(1.0) + b.abs() * y.abs().max(1.0) + 1.0).collect();
    let exact = shadow_bound(&p, &sabs, root) <= exact_bound();
    let mut nontrivial = false;
    let leaves = p.leaves();
    for (i, l) in leaves.iter().enumerate() {
        // presence must agree across all runs
        let pres = [g1[i].is_some(), g2[i].is_some(), g3[i].is_some(), gn[i].is_some(), go[i].is_some()];
        if pres.iter().any(|x| *x != pres[0]) {
            ctx.violation(&format!("C17|{}|presence-differs", fam), format!("leaf n{}: gradient presence differs between seeds {:?}\nprogram: {}", l, pres, p.pretty()));
            continue;
        }
        if !pres[0] {
            continue;
        }
        let (d1, v1) = g1[i].as_ref().unwrap();
        let (d2, v2) = g2[i].as_ref().unwrap();
        let (d3, v3) = g3[i].as_ref().unwrap();
        let (dn, vn) = gn[i].as_ref().unwrap();
        let (do_, vo) = go[i].as_ref().unwrap();
        ctx.count("leaf_gradients_compared", 1);
        ctx.count("omitted_vs_ones_compared", 1);
        if d1 != d3 || d2 != d3 || dn != do_ {
            ctx.violation(&format!("C17|{}|dims-differ", fam), format!("leaf n{}: gradient dims differ between seeds: {:?} {:?} {:?} / {:?} {:?}\nprogram: {}", l, d1, d2, d3, dn, do_, p.pretty()));
            continue;
        }
        if v1.iter().chain(v2.iter()).any(|x| *x != 0.0) && (a != 0.0 || b != 0.0) {
            nontrivial = true;
        }
        // omitted == ones: identical computation, must be bit-identical
        if vn.iter().map(|x| x.to_bits()).ne(vo.iter().map(|x| x.to_bits())) {
            ctx.violation(
                &format!("C17|{}|omitted-vs-ones", fam),
                format!("leaf n{}: backward(None) gave {} but backward(ones) gave {}\nprogram: {}", l, short(vn), short(vo), p.pretty()),
            );
        }
        let scale: Vec<f64> = if exact {
            vec![0.0; v3.len()]
        } else {
            match expected_gradient_scaled(&p, *l, &sabs, root, true) {
                Some((_, s)) => s,
                None => vec![maxmag; v3.len()],
            }
        };
        for j in 0..v3.len() {
            let want = a * v1[j] + b * v2[j];
            let ok = if exact {
                v3[j] == want
            } else {
                let sc = scale[j].max(maxmag).max(1.0);
                let e = (v3[j] - want).abs();
                ctx.fmax("linearity", e / (tau() * sc));
                e <= tau() * sc
            };
            if !ok {
                ctx.violation(
                    &format!("C17|{}|not-linear", fam),
                    format!(
                        "leaf n{} element {}: G({}*s1+{}*s2) = {} but {}*G(s1)+{}*G(s2) = {}\ns1={} s2={}\nprogram: {}",
                        l, j, a, b, v3[j], a, b, want, short(&s1), short(&s2), p.pretty()
                    ),
                );
                break;
            }
        }
    }
    ctx.case(&format!("{}|{}|{}", p.desc(), a, b), nontrivial);
    ctx.count(if exact { "cases_exact_rule" } else { "cases_tolerance_rule" }, 1);
    ctx.hist("family", fam);
    ctx.sample(fam, || format!("{} s1={} s2={} a={} b={}", p.pretty(), short(&s1), short(&s2), a, b));
    ctx.meta(|| format!("{} {:?}", p.desc(), g3.iter().map(|g| g.as_ref().map(|x| x.0.clone())).collect::<Vec<_>>()));
}
