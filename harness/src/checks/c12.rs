//! C12 - handles are transparent: clones, drops and re-binding never change results.
//!
//! Metamorphic monitor: a program and variants of it (clones substituted for operands, handles dropped at their last
//! use, pass started from a clone of the result, gradients read through clones) run on the real library; values and
//! gradients must be bit-identical.

use super::c01;
use super::CheckDef;
use crate::cg::*;
use crate::ctx::{guard, panic_class, Ctx, Tier};
use crate::program::*;
use crate::rng::Rng;
use corgi::array::Array;

pub static DEF: CheckDef = CheckDef {
    id: "C12",
    families,
    run_case,
    rule: "programs from the C01 generators; per program 6 random variants: each operand occurrence is used directly, \
           through a temporary clone or through a clone of a clone; every non-leaf handle may be dropped right after \
           its last use (which is what re-binding a variable does); the pass starts from the result or from a clone \
           of it (dropped afterwards, or the original dropped first); gradients are read through the original or a \
           clone taken before or after the pass. Node values (at creation) and all leaf gradients and the root \
           gradient must equal the plain run bit for bit. Non-trivial = the variant really differs (at least one \
           clone or drop) and some gradient is non-zero; distinct = distinct (program text, variant mask).",
    floors,
    exhaustive: |_| None,
    assumptions: &["both runs perform the same floating-point operations in the same order, so equality is bitwise"],
};

fn families(t: Tier) -> Vec<(&'static str, u64)> {
    vec![
        ("topo", t.n(4_000, 66_822)),
        ("dag-exact", t.n(10_000, 900_000)),
        ("dag-smooth", t.n(6_000, 600_000)),
        ("readme", t.n(800, 30_000)),
        ("conv-graphs", t.n(800, 40_000)),
        ("chain", t.n(120, 3_000)),
        ("fanin", t.n(300, 10_000)),
        ("dag-toggles", t.n(6_000, 600_000)),
    ]
}
fn floors(_t: Tier) -> Vec<(&'static str, u64)> {
    vec![("evaluations", 50_000), ("variants_with_clones", 20_000), ("variants_with_drops", 20_000), ("gradients_compared", 50_000)]
}

#[derive(Clone, Debug)]
pub struct Variant {
    /// per node, per operand: 0 direct, 1 temporary clone, 2 clone of a clone, 3 `clone_from` into an existing handle
    pub clone_arg: Vec<Vec<u8>>,
    pub drop_after_last_use: Vec<bool>,
    /// 0: backward on the result; 1: on a clone of it; 2: on a clone after dropping the original handle;
    /// 3: on a clone taken while the result's tracking was switched off by reference (and switched back on afterwards)
    pub pass_from: u8,
    /// 0: read gradients through the original handles; 1: through clones taken before the pass; 2: after the pass;
    /// 3: through the original handles after a detached copy (`h.clone().untracked()`) was taken and dropped; 4: the same
    /// with the copy marked `.tracked()` and still alive while reading
    pub read_via: u8,
}

impl Variant {
    pub fn plain(p: &Program) -> Variant {
        Variant {
            clone_arg: p.nodes.iter().map(|n| match n {
                Node::Op { args, .. } => vec![0; args.len()],
                _ => vec![],
            }).collect(),
            drop_after_last_use: vec![false; p.nodes.len()],
            pass_from: 0,
            read_via: 0,
        }
    }
    pub fn random(p: &Program, r: &mut Rng) -> Variant {
        let mut v = Variant::plain(p);
        let heavy = r.chance(1, 2);
        for ca in v.clone_arg.iter_mut() {
            for c in ca.iter_mut() {
                *c = if r.chance(if heavy { 3 } else { 1 }, 6) { 1 + r.below(4) as u8 } else { 0 };
            }
        }
        for (i, d) in v.drop_after_last_use.iter_mut().enumerate() {
            if matches!(p.nodes[i], Node::Op { .. }) && i != p.root() {
                *d = r.chance(1, 2);
            }
        }
        v.pass_from = r.below(4) as u8;
        // a handle that a later statement toggles by reference must stay alive (dropping it would change the program)
        for nd in &p.nodes {
            if let Node::Op { pre, .. } = nd {
                for (h, _) in pre {
                    v.drop_after_last_use[*h] = false;
                }
            }
        }
        v.read_via = r.below(5) as u8;
        v
    }
    pub fn mask(&self) -> String {
        format!(
            "c{}|d{}|p{}|r{}",
            self.clone_arg.iter().map(|a| a.iter().map(|x| x.to_string()).collect::<String>()).collect::<Vec<_>>().join("."),
            self.drop_after_last_use.iter().map(|b| if *b { '1' } else { '0' }).collect::<String>(),
            self.pass_from,
            self.read_via
        )
    }
    pub fn n_clones(&self) -> usize {
        self.clone_arg.iter().map(|a| a.iter().filter(|x| **x > 0).count()).sum::<usize>() + (self.pass_from > 0) as usize + (self.read_via > 0) as usize
    }
    pub fn n_drops(&self) -> usize {
        self.drop_after_last_use.iter().filter(|x| **x).count() + (self.pass_from == 2) as usize
    }
}

pub struct RunResult {
    /// leaf (parameter) values after an optional GradientDescent::update
    pub updated: Vec<(Vec<usize>, Vec<u64>)>,
    pub value_bits: Vec<(Vec<usize>, Vec<u64>)>,
    pub leaf_grads: Vec<Option<(Vec<usize>, Vec<u64>)>>,
    pub root_grad: Option<(Vec<usize>, Vec<u64>)>,
}

fn gbits(a: &Array) -> Option<(Vec<usize>, Vec<u64>)> {
    a.gradient().as_ref().map(|g| (g.dimensions().to_vec(), bits(g)))
}

pub fn run_variant(p: &Program, v: &Variant, seed: Option<(&[usize], &[f64])>, update: Option<f64>) -> Result<RunResult, String> {
    guard(|| {
        let n = p.nodes.len();
        let mut last_use = vec![usize::MAX; n];
        for (i, nd) in p.nodes.iter().enumerate() {
            if let Node::Op { args, .. } = nd {
                for a in args {
                    last_use[*a] = i;
                }
            }
        }
        let mut h: Vec<Option<Array>> = Vec::with_capacity(n);
        let mut value_bits = Vec::with_capacity(n);
        for (i, nd) in p.nodes.iter().enumerate() {
            let a = match nd {
                Node::Leaf { dims, vals, tracked } => {
                    let a = arr(dims, vals);
                    if *tracked {
                        a.tracked()
                    } else {
                        a
                    }
                }
                Node::Op { kind, args, post, pre } => {
                    for (hh, on) in pre {
                        if let Some(x) = &h[*hh] {
                            if *on {
                                x.start_tracking();
                            } else {
                                x.stop_tracking();
                            }
                        }
                    }
                    // temporaries (clones) live only for the duration of the operation
                    let temps: Vec<Option<Array>> = args
                        .iter()
                        .zip(&v.clone_arg[i])
                        .map(|(a, c)| {
                            let orig = h[*a].as_ref().expect("operand handle alive");
                            match c {
                                0 => None,
                                1 => Some(orig.clone()),
                                2 => {
                                    let c1 = orig.clone();
                                    Some(c1.clone())
                                }
                                4 => {
                                    // `clone_from` into a handle that already is a view of the same buffer under other
                                    // dimensions (a reshaped view re-pointed at its base)
                                    let n = orig.values().len();
                                    let mut c = orig.reshape(vec![1, n]);
                                    c.clone_from(orig);
                                    Some(c)
                                }
                                _ => {
                                    // `Clone::clone_from` into an existing handle of some other array (what
                                    // `Vec<Array>::clone_from` does with a checkpoint), tracked or not
                                    let mut c = if i % 2 == 0 { arr(&[1], &[0.0]).tracked() } else { arr(&[1], &[0.0]) };
                                    c.clone_from(orig);
                                    Some(c)
                                }
                            }
                        })
                        .collect();
                    let refs: Vec<&Array> = args.iter().zip(&temps).map(|(a, t)| t.as_ref().unwrap_or_else(|| h[*a].as_ref().unwrap())).collect();
                    let r = kind.apply_corgi(&refs, i);
                    drop(refs);
                    drop(temps);
                    let r = match post {
                        Some(true) => r.tracked(),
                        Some(false) => r.untracked(),
                        None => r,
                    };
                    // handles whose last use was this operation go out of scope (re-binding / explicit drop)
                    for a in args {
                        if last_use[*a] == i && v.drop_after_last_use[*a] {
                            h[*a] = None;
                        }
                    }
                    r
                }
            };
            value_bits.push((a.dimensions().to_vec(), bits(&a)));
            h.push(Some(a));
        }
        let root = p.root();
        let leaves = p.leaves();
        let pre_clones: Vec<Option<Array>> = leaves.iter().map(|l| h[*l].as_ref().map(|a| a.clone())).collect();
        let seed_arr = seed.map(|(d, s)| arr(d, s));
        let root_reader: Array;
        match v.pass_from {
            0 => {
                h[root].as_ref().unwrap().backward(seed_arr);
                root_reader = h[root].as_ref().unwrap().clone();
            }
            1 => {
                let c = h[root].as_ref().unwrap().clone();
                c.backward(seed_arr);
                drop(c);
                root_reader = h[root].as_ref().unwrap().clone();
            }
            3 => {
                let orig = h[root].as_ref().unwrap();
                let was = orig.stop_tracking();
                let c = orig.clone();
                if was {
                    orig.start_tracking();
                }
                c.backward(seed_arr);
                drop(c);
                root_reader = h[root].as_ref().unwrap().clone();
            }
            _ => {
                let c = h[root].as_ref().unwrap().clone();
                h[root] = None;
                c.backward(seed_arr);
                root_reader = c;
            }
        }
        let leaf_grads = leaves
            .iter()
            .enumerate()
            .map(|(j, l)| match v.read_via {
                0 => gbits(h[*l].as_ref().unwrap()),
                1 => gbits(pre_clones[j].as_ref().unwrap()),
                2 => {
                    let c = h[*l].as_ref().unwrap().clone();
                    gbits(&c)
                }
                3 => {
                    // flags changed by value belong to the new handle alone
                    let d = h[*l].as_ref().unwrap().clone().untracked();
                    drop(d);
                    gbits(h[*l].as_ref().unwrap())
                }
                _ => {
                    let d = h[*l].as_ref().unwrap().clone().tracked();
                    let g = gbits(h[*l].as_ref().unwrap());
                    drop(d);
                    g
                }
            })
            .collect();
        let leaf_grads: Vec<Option<(Vec<usize>, Vec<u64>)>> = leaf_grads;
        let root_grad = gbits(&root_reader);
        // optionally step the tracked leaves with the optimizer: the outcome must not depend on which other handles
        // (results, clones, fetched gradients) the program still holds
        let mut updated = vec![];
        if let Some(lr) = update {
            // the plain program keeps everything it ever named, including gradients it fetched
            let kept_grads: Vec<Option<Array>> = if v.n_drops() == 0 {
                leaves.iter().map(|l| h[*l].as_ref().and_then(|a| a.gradient().as_ref().map(|g| g.clone()))).collect()
            } else {
                vec![]
            };
            let mut params: Vec<Array> = leaves.iter().filter_map(|l| h[*l].take()).collect();
            let gd = corgi::optimizer::gd::GradientDescent::new(lr as corgi::numbers::Float);
            corgi::optimizer::Optimizer::update(&gd, params.iter_mut().collect());
            updated = params.iter().map(|a| (a.dimensions().to_vec(), bits(a))).collect();
            drop(kept_grads);
        }
        drop(root_reader);
        RunResult { updated, value_bits, leaf_grads, root_grad }
    })
}

pub fn run_case(ctx: &mut Ctx, fam: &str, k: u64, r: &mut Rng) {
    // dag-toggles: programs whose handles are toggled by reference / by value between uses and whose results may be
    // untracked(); no reference is needed for the relation, so the root is not restricted either
    let p = if fam == "dag-toggles" {
        let mut cfg = GenCfg::exact();
        cfg.toggles = true;
        cfg.untracked_eighths = 2;
        cfg.max_ops = 9;
        gen_program(r, &cfg)
    } else {
        c01::gen(ctx, fam, k, r)
    };
    let rr = match eval_ref_plain(&p) {
        Some(x) => x,
        None => return,
    };
    let root = p.root();
    let od = rr.vals[root].dims.clone();
    let n = crate::refmodel::numel(&od);
    let seedv: Option<Vec<f64>> = if r.chance(1, 3) { None } else { Some((0..n).map(|_| r.int(-3, 3)).collect()) };
    let seed = seedv.as_ref().map(|s| (&od[..], &s[..]));
    let update: Option<f64> = if r.chance(1, 2) { Some(*r.pick(&[1.0, 0.5, 2.0])) } else { None };
    if update.is_some() {
        ctx.count("cases_with_optimizer_update", 1);
    }
    let base = match run_variant(&p, &Variant::plain(&p), seed, update) {
        Ok(b) => b,
        Err(m) => {
            ctx.case(&p.desc(), false);
            ctx.violation(&format!("C12|{}|plain-run-panic:{}", fam, panic_class(&m)), format!("plain run panicked: {}\nprogram: {}", m, p.pretty()));
            return;
        }
    };
    let any_nonzero = base.leaf_grads.iter().flatten().any(|(_, b)| b.iter().any(|x| f64::from_bits(*x) != 0.0));
    for _ in 0..6 {
        let v = Variant::random(&p, r);
        let desc = format!("{}|{}", p.desc(), v.mask());
        ctx.case(&desc, any_nonzero && v.n_clones() + v.n_drops() > 0);
        if v.n_clones() > 0 {
            ctx.count("variants_with_clones", 1);
        }
        if v.n_drops() > 0 {
            ctx.count("variants_with_drops", 1);
        }
        ctx.hist("pass_from", &v.pass_from.to_string());
        ctx.hist("read_via", &v.read_via.to_string());
        match run_variant(&p, &v, seed, update) {
            Err(m) => ctx.violation(
                &format!("C12|{}|variant-panic:{}", fam, panic_class(&m)),
                format!("variant {} panicked: {} (the plain run did not)\nprogram: {}", v.mask(), m, p.pretty()),
            ),
            Ok(res) => {
                if res.value_bits != base.value_bits {
                    let i = (0..p.nodes.len()).find(|i| res.value_bits[*i] != base.value_bits[*i]).unwrap_or(0);
                    ctx.violation(&format!("C12|{}|values-differ", fam), format!("variant {}: node n{} differs from the plain run\nprogram: {}", v.mask(), i, p.pretty()));
                }
                ctx.count("gradients_compared", res.leaf_grads.len() as u64 + 1);
                for (j, (a, b)) in res.leaf_grads.iter().zip(&base.leaf_grads).enumerate() {
                    if a != b {
                        let show = |g: &Option<(Vec<usize>, Vec<u64>)>| g.as_ref().map(|(d, b)| format!("{:?}{}", d, short(&b.iter().map(|x| f64::from_bits(*x)).collect::<Vec<_>>()))).unwrap_or("None".into());
                        ctx.violation(
                            &format!("C12|{}|leaf-gradient-differs", fam),
                            format!("variant {}: gradient of leaf #{} is {} but the plain run gives {}\nprogram: {}\nseed: {:?}", v.mask(), j, show(a), show(b), p.pretty(), seedv),
                        );
                        break;
                    }
                }
                if res.updated != base.updated {
                    ctx.violation(&format!("C12|{}|updated-parameters-differ", fam), format!("variant {}: parameters after GradientDescent::update differ from the plain run\nprogram: {}", v.mask(), p.pretty()));
                }
                if res.root_grad != base.root_grad {
                    ctx.violation(&format!("C12|{}|root-gradient-differs", fam), format!("variant {}: root gradient differs from the plain run\nprogram: {}", v.mask(), p.pretty()));
                }
            }
        }
        ctx.sample(&format!("{}{}", fam, v.pass_from), || format!("{} variant={} seed={:?}", p.pretty(), v.mask(), seedv));
    }
    ctx.hist("family", fam);
    ctx.meta(|| format!("{} {:?}", p.desc(), base.leaf_grads.iter().map(|g| g.as_ref().map(|x| x.0.clone())).collect::<Vec<_>>()));
}
