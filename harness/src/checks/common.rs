//! Shared oracle: run a program on the real library and on the reference, compare values and gradients.

use crate::cg::*;
use crate::ctx::guard;
use crate::program::*;
use crate::refmodel::*;
use crate::rng::Rng;
use corgi::array::Array;

#[derive(Clone, Debug)]
pub struct Failure {
    /// short kind used in signatures: fwd-panic, fwd-dims, fwd-values, bwd-panic, grad-missing, grad-dims,
    /// grad-values, grad-unexpected, root-grad, interior-grad
    pub kind: String,
    pub node: usize,
    pub detail: String,
}

#[derive(Clone, Debug, Default)]
pub struct Outcome {
    pub failures: Vec<Failure>,
    pub out_of_domain: bool,
    pub exact: bool,
    pub kink: bool,
    pub values_compared: u64,
    pub grads_compared: u64,
    pub grad_elements: u64,
    pub nonzero_grads: u64,
    pub interior_compared: u64,
    pub worst_value_err: f64,
    pub worst_grad_err: f64,
    pub meta: String,
    pub shapes: Vec<Vec<usize>>,
}

#[derive(Clone, Debug, PartialEq)]
pub enum SeedMode {
    Omitted,
    Ones,
    Ints(Vec<f64>),
}

pub fn rand_seed(r: &mut Rng, n: usize) -> SeedMode {
    match r.below(16) {
        0 | 1 | 2 => SeedMode::Omitted,
        3 | 4 | 5 => SeedMode::Ones,
        // an all-zero seed and a seed written out as ones: gradients are zeros / as for `Ones`, and present all the same
        6 => SeedMode::Ints(vec![0.0; n]),
        7 => SeedMode::Ints(vec![1.0; n]),
        // a run of zeros (whole leading rows with no adjoint) followed by ordinary values, or the other way round
        8 if n >= 2 => {
            let k = r.range(1, n - 1);
            let front = r.chance(1, 2);
            SeedMode::Ints((0..n).map(|i| if (i < k) == front { 0.0 } else { r.int(-3, 3) }).collect())
        }
        _ => SeedMode::Ints((0..n).map(|_| r.int(-3, 3)).collect()),
    }
}

impl SeedMode {
    pub fn values(&self, n: usize) -> Vec<f64> {
        match self {
            SeedMode::Omitted | SeedMode::Ones => vec![1.0; n],
            SeedMode::Ints(v) => v.clone(),
        }
    }
    pub fn array(&self, dims: &[usize]) -> Option<Array> {
        match self {
            SeedMode::Omitted => None,
            _ => Some(arr(dims, &self.values(numel(dims)))),
        }
    }
    pub fn name(&self) -> &'static str {
        match self {
            SeedMode::Omitted => "omitted",
            SeedMode::Ones => "ones",
            SeedMode::Ints(_) => "ints",
        }
    }
}

pub struct CheckOpts {
    pub check_values: bool,
    pub check_grads: bool,
    pub check_interior: bool,
    /// number of identical passes (gradients must be `passes` times the single-pass gradient)
    pub passes: usize,
}
impl Default for CheckOpts {
    fn default() -> Self {
        CheckOpts { check_values: true, check_grads: true, check_interior: true, passes: 1 }
    }
}

/// true when some relu in the program sees an input that is exactly zero (sub-gradient choice is not specified)
pub fn program_has_kink(p: &Program, refv: &[T<f64>]) -> bool {
    // integer programs: exactly zero; otherwise within rounding distance of zero (relative to the program's magnitudes)
    let eps = if p.is_exact_class() { 0.0 } else { 10.0 * tau() * refv.iter().map(|t| t.max_abs()).fold(1.0f64, f64::max) };
    p.nodes.iter().any(|n| match n {
        Node::Op { kind: OpKind::Relu, args, .. } => near_kink(&refv[args[0]], eps),
        _ => false,
    })
}

pub fn run_and_check(p: &Program, seed: &SeedMode, opts: &CheckOpts) -> Outcome {
    let mut o = Outcome::default();
    let root = p.root();
    let rr = match eval_ref_plain(p) {
        Some(r) => r,
        None => {
            o.out_of_domain = true;
            return o;
        }
    };
    let refv = &rr.vals;
    o.shapes = refv.iter().map(|t| t.dims.clone()).collect();
    let maxmag = refv.iter().map(|t| t.max_abs()).fold(1.0f64, f64::max);
    if !maxmag.is_finite() {
        o.out_of_domain = true;
        return o;
    }
    let seedv = seed.values(refv[root].v.len());
    let bound = shadow_bound(p, &seedv, root) * (opts.passes as f64);
    o.exact = bound <= exact_bound();
    o.kink = program_has_kink(p, refv);
    let vscales: Vec<f64> = if o.exact { vec![] } else { value_scales(p).unwrap_or_default() };

    // forward
    let arrays = match guard(|| eval_corgi(p)) {
        Ok(a) => a,
        Err(msg) => {
            o.meta = "fwd-panic".into();
            o.failures.push(Failure { kind: "fwd-panic".into(), node: root, detail: format!("forward panicked: {}", msg) });
            return o;
        }
    };
    o.meta = arrays
        .iter()
        .map(|a| format!("{:?}{}", a.dimensions(), if is_tracked(a) { "T" } else { "U" }))
        .collect::<Vec<_>>()
        .join("");
    if opts.check_values {
        for (i, (a, t)) in arrays.iter().zip(refv).enumerate() {
            o.values_compared += 1;
            // tolerance relative to the magnitude of the terms the value is made of (never tighter than the program's
            // largest value)
            let vrule = if o.exact { Rule::Exact } else { Rule::Tol(vscales.get(i).copied().unwrap_or(1.0).max(maxmag)) };
            match compare(a.dimensions(), &vals(a), t, vrule) {
                Ok(w) => o.worst_value_err = o.worst_value_err.max(w),
                Err((kind, detail)) => {
                    o.failures.push(Failure { kind: format!("fwd-{}", kind), node: i, detail: format!("node n{}: {}", i, detail) });
                    return o;
                }
            }
        }
    }
    if !opts.check_grads {
        return o;
    }
    // backward
    for _ in 0..opts.passes {
        let s = seed.array(&refv[root].dims);
        if let Err(msg) = guard(|| arrays[root].backward(s)) {
            o.meta.push_str(" bwd-panic");
            o.failures.push(Failure { kind: "bwd-panic".into(), node: root, detail: format!("backward panicked: {}", msg) });
            return o;
        }
    }
    let passes = opts.passes as f64;
    // root gradient = seed (x passes)
    match grad_of(&arrays[root]) {
        None => {
            o.meta.push_str(" root:none");
            o.failures.push(Failure { kind: "root-grad".into(), node: root, detail: "the array the pass was started on holds no gradient".into() })
        }
        Some((gd, gv)) => {
            o.meta.push_str(" root:some");
            if p.base(root) == root {
                let want = T { dims: refv[root].dims.clone(), v: seedv.iter().map(|x| x * passes).collect() };
                if let Err((kind, detail)) = compare(&gd, &gv, &want, Rule::Exact) {
                    o.failures.push(Failure { kind: format!("root-grad-{}", kind), node: root, detail: format!("root gradient: {}", detail) });
                }
            }
        }
    }
    // which nodes may hold a gradient: flows only along operands tracked when used
    let reach = reachable_tracked(p, &rr.flags_at_creation);
    for (i, n) in p.nodes.iter().enumerate() {
        let is_leaf = matches!(n, Node::Leaf { .. });
        if i == root || p.base(i) != i {
            continue;
        }
        // a node aliased by the root shares the root's slot
        if p.base(root) == i {
            continue;
        }
        let g = grad_of(&arrays[i]);
        o.meta.push_str(&format!(" g{}:{}", i, if g.is_some() { "s" } else { "n" }));
        if !is_leaf && !opts.check_interior {
            continue;
        }
        match (g, reach[i]) {
            (None, false) => {}
            (None, true) => {
                if is_leaf {
                    o.failures.push(Failure {
                        kind: "grad-missing".into(),
                        node: i,
                        detail: format!("tracked leaf n{} reachable from the root through tracked operands holds no gradient", i),
                    });
                } else if matches!(n, Node::Op { post: Some(true), .. }) {
                    // which intermediates keep their gradient is the library's choice - except those the program asked
                    // to keep by calling `.tracked()` on the result
                    o.failures.push(Failure {
                        kind: "interior-grad-missing".into(),
                        node: i,
                        detail: format!("n{} was explicitly tracked() when it was built and is reachable from the root through tracked operands, but holds no gradient", i),
                    });
                }
            }
            (Some((gd, gv)), false) => {
                o.failures.push(Failure {
                    kind: "grad-unexpected".into(),
                    node: i,
                    detail: format!("n{} is not reachable through tracked operands but holds gradient dims {:?} values {}", i, gd, short(&gv)),
                });
            }
            (Some((gd, gv)), true) => {
                if o.kink {
                    continue;
                }
                let (want, scale) = match expected_gradient_scaled(p, i, &seedv, root, !o.exact) {
                    Some(x) => x,
                    None => continue,
                };
                let want_t = T { dims: refv[i].dims.clone(), v: want.iter().map(|x| x * passes).collect() };
                let kindp = if is_leaf { "grad" } else { "interior-grad" };
                if is_leaf {
                    o.grads_compared += 1;
                    o.grad_elements += want.len() as u64;
                    if want.iter().any(|x| *x != 0.0) {
                        o.nonzero_grads += 1;
                    }
                } else {
                    o.interior_compared += 1;
                }
                if gd != want_t.dims {
                    o.failures.push(Failure {
                        kind: format!("{}-dims", kindp),
                        node: i,
                        detail: format!("gradient of n{} has dims {:?}, the array has {:?}", i, gd, want_t.dims),
                    });
                    continue;
                }
                for (j, (gj, wj)) in gv.iter().zip(&want_t.v).enumerate() {
                    let ok = if o.exact {
                        gj == wj
                    } else {
                        // (an error scale that is not a number bounds nothing: the element is not judged)
                        if !scale[j].is_finite() {
                            continue;
                        }
                        let sc = (scale[j] * passes).max(maxmag).max(1.0);
                        let e = (gj - wj).abs();
                        let rel = e / (tau() * sc);
                        if rel.is_finite() {
                            o.worst_grad_err = o.worst_grad_err.max(rel);
                        }
                        gj.is_finite() && e <= tau() * sc
                    };
                    if !ok {
                        o.failures.push(Failure {
                            kind: format!("{}-values", kindp),
                            node: i,
                            detail: format!("gradient of n{} element {}: got {:?} want {:?}; got {} want {}", i, j, gj, wj, short(&gv), short(&want_t.v)),
                        });
                        break;
                    }
                }
            }
        }
    }
    o
}

/// reachable[i]: the root's pass delivers a delta to node i (or to a node sharing its slot) following only operands
/// whose handle was tracked when the consuming operation was built.
pub fn reachable_tracked(p: &Program, _flags_at_creation: &[bool]) -> Vec<bool> {
    reachable_from(p, p.root())
}

/// as `reachable_tracked`, for a pass started on an arbitrary node
pub fn reachable_from(p: &Program, root: usize) -> Vec<bool> {
    // recompute flags-at-use by replaying the toggles
    let n = p.nodes.len();
    let mut flags = vec![false; n];
    let mut tracked_at_use: Vec<Vec<bool>> = vec![vec![]; n];
    for (i, node) in p.nodes.iter().enumerate() {
        match node {
            Node::Leaf { tracked, .. } => flags[i] = *tracked,
            Node::Op { kind, args, post, pre } => {
                for (h, on) in pre {
                    flags[*h] = *on;
                }
                tracked_at_use[i] = args.iter().map(|a| flags[*a]).collect();
                let mut f = kind.result_tracked(args.iter().any(|a| flags[*a]));
                if kind.is_alias() {
                    f = flags[args[0]];
                }
                if let Some(b) = post {
                    f = *b;
                }
                flags[i] = f;
            }
        }
    }
    let mut reach = vec![false; n];
    reach[p.base(root)] = true;
    reach[root] = true;
    for i in (0..n).rev() {
        if !reach[i] {
            continue;
        }
        if let Node::Op { kind, args, .. } = &p.nodes[i] {
            if kind.is_alias() {
                reach[args[0]] = true;
                continue;
            }
            // a node built from untracked operands only records no children; neither does the result of a user
            // operation without a derivative that builds its result from raw values
            if !tracked_at_use[i].iter().any(|t| *t) || matches!(kind, OpKind::CGate) {
                continue;
            }
            for (a, t) in args.iter().zip(&tracked_at_use[i]) {
                if *t {
                    reach[*a] = true;
                    reach[p.base(*a)] = true;
                }
            }
        }
    }
    reach
}


/// Depth probe in a process of its own (a stack overflow aborts the process and cannot be caught): a chain of `depth`
/// multiplications built, differentiated (mode "backward") or only dropped (mode "drop") on a thread with an 8 MiB
/// stack - the default main-thread stack on Linux. Returns None when held, or (failure kind, detail).
pub fn deep_chain_probe(depth: usize, mode: &str) -> Result<Option<(String, String)>, String> {
    if cfg!(miri) {
        return Err("process spawning is not available under Miri".into());
    }
    let exe = std::env::current_exe().map_err(|e| e.to_string())?;
    let out = std::process::Command::new(exe)
        .args(["deepchain", &depth.to_string(), "8", mode])
        .output()
        .map_err(|e| e.to_string())?;
    let stdout = String::from_utf8_lossy(&out.stdout).to_string();
    let stderr = String::from_utf8_lossy(&out.stderr).to_string();
    if out.status.success() && stdout.contains("OK") {
        return Ok(None);
    }
    let stage = if stdout.contains("WRONG-GRADIENT") {
        "wrong-gradient"
    } else if !stdout.contains("built") {
        "died-while-building"
    } else if mode == "backward" && !stdout.contains("backward-done") {
        "died-in-backward"
    } else if !stdout.contains("dropped") {
        "died-in-drop"
    } else {
        "died-in-probe"
    };
    // (the ASan runtime reports the same event as "AddressSanitizer: stack-overflow")
    let overflow = stderr.contains("overflowed its stack") || stderr.contains("stack overflow") || stderr.contains("stack-overflow");
    Ok(Some((
        format!("{}{}", stage, if overflow { "(stack-overflow)" } else { "" }),
        format!("chain of {} multiplications on an 8 MiB stack, mode {}: exit status {:?}; stdout {:?}; stderr {:?}", depth, mode, out.status, stdout.trim(), stderr.trim().lines().last().unwrap_or("")),
    )))
}


/// tracking flag of every operand handle at the time each operation was built (replays the toggles of the program text)
pub fn flags_at_use(p: &Program) -> Vec<Vec<bool>> {
    let n = p.nodes.len();
    let mut flags = vec![false; n];
    let mut out: Vec<Vec<bool>> = vec![vec![]; n];
    for (i, node) in p.nodes.iter().enumerate() {
        match node {
            Node::Leaf { tracked, .. } => flags[i] = *tracked,
            Node::Op { kind, args, post, pre } => {
                for (h, on) in pre {
                    flags[*h] = *on;
                }
                out[i] = args.iter().map(|a| flags[*a]).collect();
                let mut f = kind.result_tracked(args.iter().any(|a| flags[*a]));
                if kind.is_alias() {
                    f = flags[args[0]];
                }
                if let Some(b) = post {
                    f = *b;
                }
                flags[i] = f;
            }
        }
    }
    out
}
