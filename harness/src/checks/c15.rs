//! C15 - layers, activations, costs and the model compute their documented formulas.

use super::CheckDef;
use crate::cg::*;
use crate::ctx::{guard, panic_class, Ctx, Tier};
use crate::nn::*;
use crate::program::*;
use crate::refmodel::*;
use crate::rng::Rng;
use corgi::cost::{self, CostFunction};
use corgi::layer::Layer;
use corgi::model::Model;
use corgi::numbers::Float;
use corgi::optimizer::gd::GradientDescent;

pub static DEF: CheckDef = CheckDef {
    id: "C15",
    families,
    run_case,
    rule: "layer: one dense layer (sizes 1..5) or conv layer (count 1..3, depth 1..2, filter 1..3, stride 1..3) x \
           activation none/relu/sigmoid/softmax x input single vector/image, [1,..], [b,..], [b1,b2,..]; parameters \
           are set and read through Layer::parameters(); integer parameters and inputs give bit-exact comparison for \
           activations none/relu, scaled tolerance otherwise; model: stacks of 1..3 layers, Model::forward == \
           composition; model-reuse: 2..4 calls of one Model without an update in between, on the same input handle, a \
           reshaped view of it with the batch regrouped ([b,..] / [1,b,..] / [b1,b2,..]), a tracked clone or a fresh \
           batch, each output (and the loss returned by an optional backward) compared with the composition on that \
           call's input; cost: mse and cross-entropy closures on random output/target pairs of rank 1..3 vs their \
           formulas, and Model::backward's return value == sum of the cost array. Non-trivial = batch of >= 2 rows/images \
           or >= 2 layers; distinct = distinct (family, spec, input dims).",
    floors,
    exhaustive: |_| None,
    assumptions: &["documented formulas: dense act(x W^T + b); conv act(conv(x,f,stride) + b) with b of dims [count,1,1]; mse (t-o)^2/count; cross-entropy -t ln(o)/leading dim"],
};

fn families(t: Tier) -> Vec<(&'static str, u64)> {
    vec![("layer", t.n(6_000, 1_500_000)), ("model", t.n(2_000, 500_000)), ("model-reuse", t.n(1_500, 300_000)), ("cost", t.n(3_000, 500_000))]
}
fn floors(_t: Tier) -> Vec<(&'static str, u64)> {
    vec![("evaluations", 10_000), ("layer_outputs_compared", 5_000), ("model_outputs_compared", 1_500), ("cost_arrays_compared", 2_500), ("model_backward_sums_compared", 1_000), ("batched_conv_layers", 800), ("reuse_rounds_compared", 2_500), ("reuse_rounds_on_shared_storage", 800)]
}

thread_local! {
    static LOSS_AGAIN: std::cell::Cell<f64> = std::cell::Cell::new(0.0);
    // one cost closure of each kind per worker, reused for every case: a closure is an object users keep and call with
    // batches of different sizes
    static SHARED_MSE: CostFunction = cost::mse();
    static SHARED_CE: CostFunction = cost::cross_entropy();
}

fn batch_variant(r: &mut Rng, base: &[usize]) -> (Vec<usize>, &'static str) {
    match r.below(6) {
        5 => ([&[2, r.range(1, 2), r.range(2, 3)][..], base].concat(), "batch-NxMxK"),
        0 => (base.to_vec(), "unbatched"),
        1 => ([&[1][..], base].concat(), "batch-1"),
        2 | 3 => ([&[r.range(2, 4)][..], base].concat(), "batch-N"),
        _ => ([&[2, r.range(2, 3)][..], base].concat(), "batch-NxM"),
    }
}

pub fn run_case(ctx: &mut Ctx, fam: &str, _k: u64, r: &mut Rng) {
    let acts = [Act::None, Act::Relu, Act::Sigmoid, Act::Softmax];
    match fam {
        "layer" => {
            let ints = r.chance(1, 2);
            let (l, base): (LSpec, Vec<usize>) = if r.chance(1, 2) {
                let (i, o) = (r.range(1, 5), r.range(1, 5));
                (LSpec::Dense { inp: i, out: o, act: acts[r.below(4)] }, vec![i])
            } else {
                let (cnt, d, fr, fc) = (r.range(1, 3), r.range(1, 2), r.range(1, 3), r.range(1, 3));
                let st = (r.range(1, 3), r.range(1, 3));
                (LSpec::Conv { filters: (cnt, d, fr, fc), stride: st, act: acts[r.below(4)] }, vec![d, fr + r.below(4), fc + r.below(4)])
            };
            let (in_dims, bname) = batch_variant(r, &base);
            let spec = NetSpec { layers: vec![l.clone()], in_dims: in_dims.clone(), ce: false, lr: 0.0 };
            let params = gen_params(r, &spec, ints);
            let input = gen_input(r, &spec, ints);
            let act = l.act();
            let is_conv = matches!(l, LSpec::Conv { .. });
            let desc = format!("layer|{:?}|{:?}", l, in_dims);
            ctx.case(&desc, bname == "batch-N" || bname == "batch-NxM" || bname == "batch-NxMxK");
            ctx.hist("cells", &format!("{}|{:?}|{}", if is_conv { "conv" } else { "dense" }, act, bname));
            if is_conv && bname != "unbatched" && bname != "batch-1" {
                ctx.count("batched_conv_layers", 1);
            }
            ctx.sample(&format!("{}{}", is_conv, bname), || format!("{:?} input dims {:?} {} W={} b={}", l, in_dims, short(&input.v), short(&params[0].v), short(&params[1].v)));
            let want = match layer_ref(&l, &params[0], &params[1], &input) {
                Some((_, o)) => o,
                None => return,
            };
            // one layer in six was constructed at other sizes and then given these parameters through parameters()
            // (a pruned / widened layer, weights loaded from elsewhere): it computes with the parameters it holds
            let built_as: Option<NetSpec> = if r.chance(1, 6) {
                let l2 = match &l {
                    LSpec::Dense { act, .. } => LSpec::Dense { inp: r.range(1, 5), out: r.range(1, 5), act: *act },
                    LSpec::Conv { stride, act, .. } => LSpec::Conv { filters: (r.range(1, 3), r.range(1, 2), r.range(1, 3), r.range(1, 3)), stride: *stride, act: *act },
                    other => other.clone(),
                };
                ctx.count("layers_constructed_at_other_sizes", 1);
                Some(NetSpec { layers: vec![l2], in_dims: in_dims.clone(), ce: false, lr: 0.0 })
            } else {
                None
            };
            let first_params = built_as.as_ref().map(|s2| gen_params(r, s2, true));
            let res = guard(|| {
                let a = Acts::new();
                let mut layers = match (&built_as, &first_params) {
                    (Some(s2), Some(p2)) => {
                        let mut ls = build_layers(s2, &a, p2);
                        for (p, t) in ls[0].parameters().into_iter().zip(&params) {
                            *p = arr_t(t).tracked();
                        }
                        ls
                    }
                    _ => build_layers(&spec, &a, &params),
                };
                // parameters read back through the public accessor
                let read: Vec<Obs> = layers[0].parameters().iter().map(|p| Obs::of(p)).collect();
                let out = layers[0].forward(arr_t(&input));
                (read, Obs::of(&out), is_tracked(&out))
            });
            match res {
                Err(m) => ctx.violation(&format!("C15|layer|{}|panic:{}", if is_conv { "conv" } else { "dense" }, panic_class(&m)), format!("{} panicked: {}", desc, m)),
                Ok((read, out, tracked)) => {
                    ctx.meta(|| format!("{} {:?} {}", desc, out.dims, tracked));
                    ctx.count("layer_outputs_compared", 1);
                    if read.iter().zip(&params).any(|(a, b)| a.dims != b.dims || a.vals != b.v) {
                        ctx.violation("C15|layer|parameters-accessor", format!("{}: parameters read through Layer::parameters() differ from those set", desc));
                    }
                    let exact = ints && matches!(act, Act::None | Act::Relu);
                    let scale = want.max_abs().max(input.max_abs()).max(1.0) * 10.0;
                    match compare(&out.dims, &out.vals, &want, if exact { Rule::Exact } else { Rule::Tol(scale) }) {
                        Ok(w) => ctx.fmax("layer", w),
                        Err((k, d)) => ctx.violation(
                            &format!("C15|layer|{}|{}|wrong-{}", if is_conv { "conv" } else { "dense" }, bname, k),
                            format!("{}: {}\nW={} b={} x={}", desc, d, short(&params[0].v), short(&params[1].v), short(&input.v)),
                        ),
                    }
                    if !tracked {
                        ctx.violation("C15|layer|output-untracked", format!("{}: the output of a layer with tracked parameters is untracked", desc));
                    }
                }
            }
        }
        "model" => {
            let spec = gen_net(r, ctx.tier == Tier::Thorough);
            let params = gen_params(r, &spec, false);
            let input = gen_input(r, &spec, false);
            let (want, _) = match forward_ref::<f64>(&spec, &params, &input) {
                Some(x) => x,
                None => return,
            };
            let tdims = if r.chance(1, 3) { super::shapes::partner(r, &want.dims) } else { want.dims.clone() };
            let target = gen_target(r, &tdims);
            let desc = format!("model|{}|target{:?}", spec.describe(), tdims);
            ctx.case(&desc, spec.layers.len() >= 2);
            ctx.sample(&format!("model{}", spec.layers.len()), || desc.clone());
            let want_cost = cost_ref(spec.ce, &want, &target).unwrap();
            let res = guard(|| {
                let a = Acts::new();
                let mut layers = build_layers(&spec, &a, &params);
                let opt = GradientDescent::new(0.0);
                let mut with_cost = |costf: &CostFunction| {
                    let refs: Vec<&mut dyn Layer> = layers.iter_mut().map(|s| s as &mut dyn Layer).collect();
                    let mut model = Model::new(refs, &opt, costf);
                    let out = model.forward(arr_t(&input));
                    let o = Obs::of(&out);
                    let cost_arr = Obs::of(&costf(&out, &arr_t(&target)));
                    let loss = model.backward(arr_t(&target)) as f64;
                    // the value is a function of the forward pass and the target, whenever it is asked for: also after
                    // the parameters were updated
                    model.update();
                    let loss_again = model.backward(arr_t(&target)) as f64;
                    LOSS_AGAIN.with(|l| l.set(loss_again));
                    (o, cost_arr, loss)
                };
                if spec.ce {
                    SHARED_CE.with(|f| with_cost(f))
                } else {
                    SHARED_MSE.with(|f| with_cost(f))
                }
            });
            match res {
                Err(m) => ctx.violation(&format!("C15|model|panic:{}", panic_class(&m)), format!("{} panicked: {}", desc, m)),
                Ok((out, cost_arr, loss)) => {
                    ctx.meta(|| format!("{} {:?}", desc, out.dims));
                    ctx.count("model_outputs_compared", 1);
                    let scale = want.max_abs().max(input.max_abs()).max(1.0) * 10.0;
                    if let Err((k, d)) = compare(&out.dims, &out.vals, &want, Rule::Tol(scale)) {
                        ctx.violation(&format!("C15|model|forward-{}", k), format!("{}: Model::forward is not the composition of its layers: {}", desc, d));
                        return;
                    }
                    let cscale = want_cost.max_abs().max(1.0) * 10.0;
                    ctx.count("cost_arrays_compared", 1);
                    if let Err((k, d)) = compare(&cost_arr.dims, &cost_arr.vals, &want_cost, Rule::Tol(cscale)) {
                        ctx.violation(&format!("C15|cost|{}|{}", if spec.ce { "cross_entropy" } else { "mse" }, k), format!("{}: cost array: {}", desc, d));
                        return;
                    }
                    ctx.count("model_backward_sums_compared", 1);
                    let total: f64 = want_cost.v.iter().sum();
                    let tscale = want_cost.v.iter().map(|x| x.abs()).sum::<f64>().max(1.0) * 10.0;
                    if !((loss - total).abs() <= tau() * tscale) {
                        ctx.violation("C15|model|backward-return", format!("{}: Model::backward returned {} but the cost array sums to {}", desc, loss, total));
                    }
                    let again = LOSS_AGAIN.with(|l| l.get());
                    if !((again - total).abs() <= tau() * tscale) {
                        ctx.violation("C15|model|backward-return-after-update", format!("{}: Model::backward called again after update (same forward pass, same target) returned {} but the cost array sums to {}", desc, again, total));
                    }
                }
            }
        }
        "model-reuse" => {
            // one model object called several times without an update in between, on inputs related to earlier ones:
            // the same handle, a reshaped view of it with the batch regrouped, a tracked clone, a fresh batch
            let spec = gen_net(r, false);
            let params = gen_params(r, &spec, false);
            let base = gen_input(r, &spec, false);
            let rank_unbatched = if spec.is_conv() { 3 } else { 1 };
            let lead: Vec<usize> = base.dims[..base.dims.len() - rank_unbatched].to_vec();
            let rest: Vec<usize> = base.dims[base.dims.len() - rank_unbatched..].to_vec();
            let b: usize = lead.iter().product();
            let n_rounds = r.range(2, 5);
            // (kind, dims, fresh values?, tracked?, backward after?)
            let mut rounds: Vec<(&'static str, T<f64>, bool, bool)> = vec![("first", base.clone(), false, r.chance(1, 2))];
            for _ in 1..n_rounds {
                let kind = *r.pick(&["same", "view", "view", "tracked-clone", "fresh", "fresh"]);
                let t = match kind {
                    "view" => {
                        let mut cands: Vec<Vec<usize>> = vec![[&[1, b][..], &rest].concat(), [&[b][..], &rest].concat()];
                        if b == 1 {
                            cands.push(rest.clone());
                        }
                        for f in 2..b {
                            if b % f == 0 {
                                cands.push([&[f, b / f][..], &rest].concat());
                            }
                        }
                        let d = r.pick(&cands).clone();
                        T::from_f64(&d, &base.vals())
                    }
                    "fresh" => {
                        let mut s2 = spec.clone();
                        let mut rest2 = rest.clone();
                        // a convolutional stack takes images of any size: larger, then smaller down to a single row or
                        // column of output positions
                        if let LSpec::Conv { filters, .. } = &spec.layers[0] {
                            rest2[1] = filters.2 + *r.pick(&[0, 0, 1, 2, 4]);
                            rest2[2] = filters.3 + *r.pick(&[0, 0, 1, 2, 4]);
                        }
                        s2.in_dims = [&[r.range(1, 3)][..], &rest2].concat();
                        gen_input(r, &s2, false)
                    }
                    _ => base.clone(),
                };
                rounds.push((kind, t, kind == "tracked-clone", r.chance(1, 2)));
            }
            let mut wants = vec![];
            for (_, t, _, _) in &rounds {
                match forward_ref::<f64>(&spec, &params, t) {
                    Some((w, _)) => wants.push(w),
                    None => return,
                }
            }
            let targets: Vec<T<f64>> = wants.iter().map(|w| gen_target(r, &w.dims)).collect();
            // one run in four on a model whose parameters are all frozen (inference, or scoring against targets, with a
            // trained model)
            let frozen = r.chance(1, 4);
            if frozen {
                ctx.count("reuse_runs_on_frozen_models", 1);
            }
            let desc = format!("model-reuse|{}{}|{}", spec.describe(), if frozen { "|all-parameters-frozen" } else { "" }, rounds.iter().map(|(k, t, _, bw)| format!("{}{:?}{}", k, t.dims, if *bw { "+bw" } else { "" })).collect::<Vec<_>>().join(","));
            ctx.case(&desc, rounds.iter().any(|(k, t, _, _)| *k == "view" && t.dims != base.dims));
            ctx.sample("reuse", || desc.clone());
            for (k, _, _, _) in &rounds[1..] {
                ctx.hist("reuse_round_kinds", k);
            }
            let res = guard(|| {
                let a = Acts::new();
                let mut layers = build_layers(&spec, &a, &params);
                if frozen {
                    for l in layers.iter_mut() {
                        for p in l.parameters() {
                            p.stop_tracking();
                        }
                    }
                }
                let opt = GradientDescent::new(0.0);
                let mut with_cost = |costf: &CostFunction| {
                    let refs: Vec<&mut dyn Layer> = layers.iter_mut().map(|s| s as &mut dyn Layer).collect();
                    let mut model = Model::new(refs, &opt, costf);
                    let base_arr = arr_t(&base);
                    let mut seen = vec![];
                    for (i, (kind, t, tracked, bw)) in rounds.iter().enumerate() {
                        let input = match *kind {
                            "first" | "same" => base_arr.clone(),
                            "view" => base_arr.reshape(t.dims.clone()),
                            "tracked-clone" => base_arr.clone().tracked(),
                            _ => arr_t(t),
                        };
                        let _ = tracked;
                        let out = model.forward(input);
                        let o = Obs::of(&out);
                        let loss = if *bw { Some(model.backward(arr_t(&targets[i])) as f64) } else { None };
                        seen.push((o, loss));
                    }
                    seen
                };
                if spec.ce {
                    SHARED_CE.with(|f| with_cost(f))
                } else {
                    SHARED_MSE.with(|f| with_cost(f))
                }
            });
            match res {
                Err(m) => ctx.violation(&format!("C15|model-reuse|panic:{}", panic_class(&m)), format!("{} panicked: {}", desc, m)),
                Ok(seen) => {
                    ctx.meta(|| format!("{} {:?}", desc, seen.iter().map(|(o, _)| o.dims.clone()).collect::<Vec<_>>()));
                    for (i, (o, loss)) in seen.iter().enumerate() {
                        ctx.count("reuse_rounds_compared", 1);
                        if i > 0 && rounds[i].0 != "fresh" {
                            ctx.count("reuse_rounds_on_shared_storage", 1);
                        }
                        let scale = wants[i].max_abs().max(rounds[i].1.max_abs()).max(1.0) * 10.0;
                        if let Err((k, d)) = compare(&o.dims, &o.vals, &wants[i], Rule::Tol(scale)) {
                            ctx.violation(&format!("C15|model-reuse|{}|forward-{}", rounds[i].0, k), format!("{}: call {} of the same model is not the composition of its layers on that input: {}", desc, i, d));
                            return;
                        }
                        if let Some(l) = loss {
                            let wc = cost_ref(spec.ce, &wants[i], &targets[i]).unwrap();
                            let total: f64 = wc.v.iter().sum();
                            let tscale = wc.v.iter().map(|x| x.abs()).sum::<f64>().max(1.0) * 10.0;
                            if !((l - total).abs() <= tau() * tscale) {
                                ctx.violation(&format!("C15|model-reuse|{}|backward-return", rounds[i].0), format!("{}: call {}: Model::backward returned {} but the cost array of that call sums to {}", desc, i, l, total));
                                return;
                            }
                        }
                    }
                }
            }
        }
        _ => {
            // cost closures alone
            let rank = r.range(1, 3);
            let dims: Vec<usize> = (0..rank).map(|_| r.range(1, 4)).collect();
            let n = numel(&dims);
            let ce = r.chance(1, 2);
            let out: Vec<f64> = if ce { (0..n).map(|_| 0.125 * r.int(1, 8)).collect() } else { (0..n).map(|_| 0.25 * r.int(-12, 12)).collect() };
            // the target may have the output's shape or any shape broadcasting to it (a vector target next to a
            // [1,n] output of an unbatched dense layer, one target row shared by a batch, ...)
            // ... or a shape that broadcasts WITH it, each side stretching the other (an [n,1] output of a one-unit
            // layer next to a flat [n] target gives an [n,n] cost array - C04's rule, whatever one thinks of the idiom)
            let tdims: Vec<usize> = match r.below(5) {
                0 | 1 => dims.clone(),
                2 | 3 => super::shapes::partner(r, &dims),
                _ => {
                    let mut t: Vec<usize> = dims.iter().map(|x| if *x == 1 { r.range(2, 3) } else if r.chance(1, 2) { 1 } else { *x }).collect();
                    if r.chance(1, 2) && t.len() > 1 {
                        t.remove(0);
                    }
                    if dims.len() >= 2 && dims[dims.len() - 1] == 1 && r.chance(1, 2) {
                        t = vec![dims[dims.len() - 2]];
                    }
                    t
                }
            };
            let tgt: Vec<f64> = (0..numel(&tdims)).map(|_| 0.25 * r.int(0, 4)).collect();
            let to: T<f64> = T::from_f64(&dims, &out);
            let tt: T<f64> = T::from_f64(&tdims, &tgt);
            if tdims != dims {
                ctx.count("cost_cases_with_broadcast_target", 1);
            }
            let want = cost_ref(ce, &to, &tt).unwrap();
            let desc = format!("cost|{}|{:?}|target{:?}", if ce { "cross_entropy" } else { "mse" }, dims, tdims);
            ctx.case(&desc, n > 1);
            ctx.sample(&format!("cost{}", ce), || format!("{} output={} target={}", desc, short(&out), short(&tgt)));
            // the costs are compositions of differentiable operations: with tracked output and target both receive the
            // gradient of the documented formula (reference: the same formula as a program, forward mode)
            let mut refp = Program::default();
            let n_out = refp.leaf(&dims, &out, true);
            let n_tgt = refp.leaf(&tdims, &tgt, true);
            let ref_root = if ce {
                let l = refp.op(OpKind::Ln, &[n_out]);
                let nt = refp.op(OpKind::Neg, &[n_tgt]);
                let m = refp.op(OpKind::Mul, &[nt, l]);
                refp.op(OpKind::Scale(1.0 / dims[0] as f64), &[m])
            } else {
                let d = refp.op(OpKind::Sub, &[n_tgt, n_out]);
                let sq = refp.op(OpKind::Mul, &[d, d]);
                refp.op(OpKind::Scale(1.0 / n as f64), &[sq])
            };
            let seedv: Vec<f64> = (0..want.v.len()).map(|_| r.int(-3, 3)).collect();
            let track_target = r.chance(1, 2);
            let res = guard(|| {
                let run = |f: &CostFunction| {
                    let o = arr(&dims, &out).tracked();
                    let t = if track_target { arr(&tdims, &tgt).tracked() } else { arr(&tdims, &tgt) };
                    let c = f(&o, &t);
                    let obs = Obs::of(&c);
                    c.backward(Some(arr(&want.dims, &seedv)));
                    (obs, c.sum_all() as f64, grad_of(&o), grad_of(&t))
                };
                if ce {
                    SHARED_CE.with(|f| run(f))
                } else {
                    SHARED_MSE.with(|f| run(f))
                }
            });
            let res = res.map(|(c, s, go, gt)| {
                for (which, node, g) in [("output", n_out, go), ("target", n_tgt, gt)] {
                    if which == "target" && !track_target {
                        if g.is_some() {
                            ctx.violation("C15|cost|untracked-target-got-gradient", format!("{}: the untracked target holds a gradient", desc));
                        }
                        continue;
                    }
                    ctx.count("cost_gradients_compared", 1);
                    let (wg, sc) = match expected_gradient_scaled(&refp, node, &seedv, ref_root, true) {
                        Some(x) => x,
                        None => continue,
                    };
                    match g {
                        None => ctx.violation(&format!("C15|cost|{}|gradient-missing", if ce { "cross_entropy" } else { "mse" }), format!("{}: tracked {} received no gradient", desc, which)),
                        Some((gd, gv)) => {
                            let wd = if which == "output" { &dims } else { &tdims };
                            let ok = &gd == wd && gv.iter().zip(&wg).zip(&sc).all(|((a, b), s)| (a - b).abs() <= tau() * s.max(1.0) * 10.0);
                            if !ok {
                                ctx.violation(
                                    &format!("C15|cost|{}|gradient-of-{}", if ce { "cross_entropy" } else { "mse" }, which),
                                    format!("{}: gradient of the {} dims {:?} values {} want dims {:?} values {}\noutput={} target={} seed={}", desc, which, gd, short(&gv), wd, short(&wg), short(&out), short(&tgt), short(&seedv)),
                                );
                            }
                        }
                    }
                }
                (c, s)
            });
            match res {
                Err(m) => ctx.violation(&format!("C15|cost|panic:{}", panic_class(&m)), format!("{} panicked: {}", desc, m)),
                Ok((c, _)) => {
                    ctx.count("cost_arrays_compared", 1);
                    let scale = want.max_abs().max(1.0);
                    match compare(&c.dims, &c.vals, &want, Rule::Tol(scale)) {
                        Ok(w) => ctx.fmax("cost", w),
                        Err((k, d)) => ctx.violation(&format!("C15|cost|{}|{}", if ce { "cross_entropy" } else { "mse" }, k), format!("{}: {}\noutput={} target={}", desc, d, short(&out), short(&tgt))),
                    }
                }
            }
            let _: Float = 0.0;
        }
    }
}
