//! C14 - each training iteration steps parameters along the true current-loss gradient.
//!
//! History checker over boundary-spy events (SpyLayer / SpyOptimizer around the real layers and optimizer inside the
//! real Model): for every iteration the returned loss, the gradients the optimizer sees and the parameters it leaves
//! are compared with a reference step computed (forward mode) from the parameters observed before that iteration.

use super::CheckDef;
use crate::cg::*;
use crate::ctx::{panic_class, Ctx, Tier};
use crate::nn::*;
use crate::refmodel::*;
use crate::rng::Rng;

pub static DEF: CheckDef = CheckDef {
    id: "C14",
    families,
    run_case,
    rule: "histories of the forward/backward/update loop of a real Model: stacks of 1..3 dense layers (sizes 1..4, \
           thorough 1..5; activations none/relu/sigmoid/softmax; mse or cross-entropy) or 1..2 conv layers (strides \
           1..2, conv->conv); a quarter of the dense stacks mix in user-defined Layer implementations with 0 (activation \
           only), 1 (gain) or 3 (weights, gain, bias) parameter arrays, input unbatched / batch 1 / batch 2..4 with the batch size changing between iterations, \
           learning rates {0, .01, .1, .5}, 2..12 iterations (thorough up to 50), a fresh random batch every \
           iteration, occasional double backward before update; family disturbed: the same loops with what user code may do between \
           iterations - a forward call on another batch whose result is abandoned (before the iteration's own forward, or between its \
           backward and update), the Model dropped and rebuilt over \
           the same layers after freezing / unfreezing parameters (stop_tracking / start_tracking through \
           Layer::parameters()) or replacing one by a new array: frozen parameters must reach the optimizer without a \
           gradient and stay bit-identical, all others still step along the exact gradient. Non-trivial = >= 2 iterations with lr > 0; distinct = \
           distinct (net spec, iteration count, batch-size sequence).",
    floors,
    exhaustive: |_| None,
    assumptions: &[
        "reference net + forward-mode gradients in nn.rs; tolerance tau * (absolute path sums of the loss terms)",
        "iterations whose relu pre-activations hit exactly 0 are excluded from gradient verdicts",
    ],
};

fn families(t: Tier) -> Vec<(&'static str, u64)> {
    vec![("training", t.n(2_500, 250_000)), ("disturbed", t.n(1_500, 150_000))]
}
fn floors(_t: Tier) -> Vec<(&'static str, u64)> {
    vec![("evaluations", 400), ("iterations_checked", 1_500), ("parameter_gradients_compared", 4_000), ("conv_histories", 60), ("batched_histories", 150), ("disturbed_iterations_checked", 600), ("frozen_parameters_checked", 150), ("iterations_after_abandoned_forward", 150), ("iterations_after_parameter_edit", 100), ("iterations_with_forward_before_update", 150), ("histories_with_user_defined_layers", 200), ("backward_calls_after_update_checked", 100), ("iterations_with_model_rebuilt_before_update", 150), ("iterations_with_the_model_applied_twice", 40)]
}

pub fn run_case(ctx: &mut Ctx, fam: &str, _k: u64, r: &mut Rng) {
    let disturbed = fam == "disturbed";
    let spec = gen_net(r, ctx.tier == Tier::Thorough);
    let n_iter = r.range(2, ctx.tier.n(12, 50) as usize);
    let params0 = gen_params(r, &spec, false);
    // batches: the batch size may change between iterations when the input has a batch dimension
    let rank_unbatched = if spec.is_conv() { 3 } else { 1 };
    let has_batch = spec.in_dims.len() > rank_unbatched;
    let mut iterations = vec![];
    let mut batch_sizes = vec![];
    let mut repeated_batches = 0u64;
    for _ in 0..n_iter {
        let mut s = spec.clone();
        if has_batch && r.chance(1, 2) {
            s.in_dims[0] = r.range(1, 4);
        }
        // a convolutional stack takes images of any size: the size may change from batch to batch as well
        if let LSpec::Conv { filters, .. } = &spec.layers[0] {
            if r.chance(1, 3) {
                let nd = s.in_dims.len();
                s.in_dims[nd - 2] = filters.2 + *r.pick(&[0, 1, 2, 3]);
                s.in_dims[nd - 1] = filters.3 + *r.pick(&[0, 1, 2, 3]);
            }
        }
        // epochs over a small data set: now and then the batch is the previous one again (the loop then hands the very
        // same array handle to the model a second time)
        if !iterations.is_empty() && r.chance(1, 5) {
            let prev: &Iteration = iterations.last().unwrap();
            let (pi, pt) = (prev.input.clone(), prev.target.clone());
            batch_sizes.push(if has_batch { pi.dims[0] } else { 0 });
            let target = if r.chance(1, 2) { pt } else { gen_target(r, &pt.dims) };
            iterations.push(Iteration::plain(pi, target, r.chance(1, 8)));
            repeated_batches += 1;
            continue;
        }
        batch_sizes.push(if has_batch { s.in_dims[0] } else { 0 });
        let input = gen_input(r, &s, false);
        // target shape = output shape (from the reference forward)
        let out = match forward_ref::<f64>(&s, &params0, &input) {
            Some((o, _)) => o,
            None => return,
        };
        let target = gen_target(r, &out.dims);
        iterations.push(Iteration::plain(input, target, r.chance(1, 8)));
    }
    // what user code may do between iterations: abandon a forward call, drop the model and build a new one over the
    // same layers after freezing / unfreezing parameters or replacing one through Layer::parameters()
    let n_params = params0.len();
    let mut tracked_now = vec![true; n_params];
    let mut tracked_at: Vec<Vec<bool>> = vec![];
    let mut notes: Vec<String> = vec![];
    // a backward call after the update differentiates the graph of the REPLACED parameters: clones of them (a
    // checkpoint) rightly see those gradients, so a history uses either such calls or restores from a checkpoint
    let late_backward_history = r.chance(1, 2);
    for t in 0..n_iter {
        if disturbed {
            if r.chance(1, 4) {
                let mut s = spec.clone();
                if has_batch {
                    s.in_dims[0] = r.range(1, 4);
                }
                iterations[t].abandoned_forward = Some(if r.chance(1, 3) && s.in_dims == iterations[t].input.dims { iterations[t].input.clone() } else { gen_input(r, &s, false) });
                notes.push(format!("{}:abandoned-forward", t));
            }
            if r.chance(1, 5) {
                let mut s = spec.clone();
                if has_batch {
                    s.in_dims[0] = r.range(1, 4);
                }
                iterations[t].late_forward = Some(gen_input(r, &s, false));
                notes.push(format!("{}:forward-between-backward-and-update", t));
            }
            // the model dropped after backward, a new one over the same layers calls update
            if r.chance(1, 6) && iterations[t].late_forward.is_none() {
                iterations[t].rebuild_before_update = true;
                notes.push(format!("{}:model-rebuilt-between-backward-and-update", t));
            }
            // the model applied to its own output (needs an output of the input's dimensions)
            if r.chance(1, 3) {
                if let Some((o1, _)) = forward_ref::<f64>(&spec, &params0, &iterations[t].input) {
                    if o1.dims == iterations[t].input.dims && forward_ref::<f64>(&spec, &params0, &o1).map(|x| x.0.dims == o1.dims).unwrap_or(false) {
                        iterations[t].twice = true;
                        notes.push(format!("{}:forward(forward(x))", t));
                    }
                }
            }
            if late_backward_history && r.chance(1, 4) && iterations[t].late_forward.is_none() && !iterations[t].rebuild_before_update {
                iterations[t].late_backward = true;
                notes.push(format!("{}:backward-again-after-update", t));
            }
            if t >= 1 && r.chance(1, 3) {
                let mut freeze = vec![None; n_params];
                for k in 0..n_params {
                    if tracked_now[k] && r.chance(1, 4) {
                        freeze[k] = Some(true);
                        tracked_now[k] = false;
                    } else if !tracked_now[k] && r.chance(1, 2) {
                        freeze[k] = Some(false);
                        tracked_now[k] = true;
                    }
                }
                let mut edits = vec![];
                if r.chance(1, 2) {
                    let k = r.below(n_params);
                    let d = params0[k].dims.clone();
                    let n: usize = d.iter().product();
                    let v: Vec<f64> = (0..n).map(|_| 0.25 * r.int(-6, 6)).collect();
                    edits.push((k, T::from_f64(&d, &v)));
                    tracked_now[k] = true;
                }
                // early stopping / best-checkpoint: a parameter restored from a handle clone taken before training
                let mut restores = vec![];
                if !late_backward_history && r.chance(1, 3) {
                    let k = r.below(n_params);
                    if !edits.iter().any(|(j, _)| *j == k) {
                        restores.push(k);
                        tracked_now[k] = true;
                    }
                }
                if !tracked_now.iter().any(|x| *x) {
                    let k = r.below(n_params);
                    freeze[k] = Some(false);
                    tracked_now[k] = true;
                }
                notes.push(format!("{}:rebuild freeze={:?} edits={:?}", t, freeze.iter().map(|f| match f { Some(true) => 'f', Some(false) => 'u', None => '-' }).collect::<String>(), edits.iter().map(|(k, _)| *k).collect::<Vec<_>>()));
                if !restores.is_empty() {
                    notes.push(format!("{}:restore-from-checkpoint {:?}", t, restores));
                }
                iterations[t].rebuild = Some(Rebuild { freeze, edits, restores });
            }
        }
        tracked_at.push(tracked_now.clone());
    }
    let desc = format!("{} iterations={} batch_sizes={:?}{}", spec.describe(), n_iter, batch_sizes, if disturbed { format!(" disturbances=[{}]", notes.join("; ")) } else { String::new() });
    ctx.case(&desc, n_iter >= 2 && spec.lr > 0.0);
    ctx.sample(if spec.is_conv() { "conv" } else { "dense" }, || desc.clone());
    ctx.count("iterations_on_the_previous_batch_again", repeated_batches);
    if spec.is_conv() {
        ctx.count("conv_histories", 1);
    }
    if has_batch {
        ctx.count("batched_histories", 1);
    }
    if spec.layers.iter().any(|l| l.is_user_defined()) {
        ctx.count("histories_with_user_defined_layers", 1);
    }
    ctx.hist("layers", &format!("{}x{}", if spec.is_conv() { "conv" } else { "dense" }, spec.layers.len()));
    ctx.hist("cost", if spec.ce { "cross_entropy" } else { "mse" });
    ctx.hist("lr", &spec.lr.to_string());
    let run = match train_spied(&spec, &params0, &iterations, false) {
        Ok(r) => r,
        Err(m) => {
            ctx.violation(&format!("C14|panic:{}", panic_class(&m)), format!("training loop panicked: {}\n{}", m, desc));
            return;
        }
    };
    ctx.meta(|| format!("{} outs={:?}", desc, run.outputs.iter().map(|o| o.dims.clone()).collect::<Vec<_>>()));
    // split events per iteration
    let nl = spec.layers.len();
    // an iteration is `apps * nl` forward events (the model may be applied to its own output) and one update
    let pers: Vec<usize> = iterations.iter().map(|it| nl * if it.twice { 2 } else { 1 } + 1).collect();
    let expected_events: usize = pers.iter().sum();
    if run.events.len() != expected_events {
        ctx.violation("C14|event-count", format!("expected {} boundary events ({} forward per application + 1 update per iteration), saw {}\n{}", expected_events, nl, run.events.len(), desc));
        return;
    }
    let mut ev_at = 0usize;
    ctx.count("boundary_events_observed", run.events.len() as u64);
    let mut prev_after: Option<Vec<Obs>> = None;
    for (t, it) in iterations.iter().enumerate() {
        let per = pers[t];
        let evs = &run.events[ev_at..ev_at + per];
        ev_at += per;
        let apps = if it.twice { 2 } else { 1 };
        let (before, after) = match &evs[per - 1] {
            Ev::Update { before, after } => (before, after),
            _ => {
                ctx.violation("C14|event-order", format!("iteration {}: the last event is not an update\n{}", t, desc));
                return;
            }
        };
        let pb: Vec<T<f64>> = before.iter().map(|p| p.value.t()).collect();
        // parameters used by the forward pass are the parameters the optimizer then sees
        let mut fwd_params: Vec<Obs> = vec![];
        for e in &evs[..nl] {
            if let Ev::Forward { params, .. } = e {
                fwd_params.extend(params.iter().cloned());
            }
        }
        if fwd_params.len() != pb.len() || fwd_params.iter().zip(&pb).any(|(a, b)| a.dims != b.dims || a.vals != b.v) {
            ctx.violation("C14|parameters-changed-within-iteration", format!("iteration {}: parameters seen by forward differ from those handed to the optimizer\n{}", t, desc));
            return;
        }
        // no state from the previous iteration: parameters now are exactly what the last update left (or what the
        // user put there through Layer::parameters() since)
        if let (Some(pa), Some(rb)) = (&mut prev_after, &it.rebuild) {
            for (k, e) in &rb.edits {
                pa[*k] = Obs { dims: e.dims.clone(), vals: if IS_F32 { e.vals().iter().map(|x| *x as f32 as f64).collect() } else { e.vals() } };
            }
            for k in &rb.restores {
                let e = &params0[*k];
                pa[*k] = Obs { dims: e.dims.clone(), vals: if IS_F32 { e.vals().iter().map(|x| *x as f32 as f64).collect() } else { e.vals() } };
            }
            ctx.count("iterations_after_parameter_edit", (rb.edits.len() + rb.restores.len()) as u64);
            ctx.count("iterations_after_checkpoint_restore", rb.restores.len() as u64);
        }
        if it.late_forward.is_some() {
            ctx.count("iterations_with_forward_before_update", 1);
        }
        if it.abandoned_forward.is_some() {
            ctx.count("iterations_after_abandoned_forward", 1);
        }
        if let Some(pa) = &prev_after {
            if pa.iter().zip(&fwd_params).any(|(a, b)| a.dims != b.dims || a.vals.iter().map(|x| x.to_bits()).ne(b.vals.iter().map(|x| x.to_bits()))) {
                ctx.violation("C14|parameters-drift-between-iterations", format!("iteration {}: parameters differ from what the previous update produced\n{}", t, desc));
                return;
            }
        }
        if it.twice {
            ctx.count("iterations_with_the_model_applied_twice", 1);
        }
        if it.rebuild_before_update {
            ctx.count("iterations_with_model_rebuilt_before_update", 1);
        }
        let (loss, grads, scales, kink) = match loss_and_grads_n(&spec, &pb, &it.input, &it.target, apps) {
            Some(x) => x,
            None => {
                ctx.count("reference_rejected_iteration", 1);
                return;
            }
        };
        // model output = composition on current parameters
        let (out_ref, _) = forward_ref_n::<f64>(&spec, &pb, &it.input, apps).unwrap();
        // a diverging run (large learning rate on an unbounded net) leaves the in-domain value range: stop observing
        let pmax = pb.iter().map(|p| p.max_abs()).fold(0.0f64, f64::max);
        // saturation: once a pre-activation leaves [-100, 100] the exponentials of sigmoid/softmax (and the squares in
        // the quotient's derivative) leave the range in which every term of the gradient is representable
        let mut x = it.input.clone();
        let mut saturated = false;
        let offs = spec.param_offsets();
        // (every application of the stack when the model is applied to its own output)
        for _ in 0..apps {
            for (li, l) in spec.layers.iter().enumerate() {
                if let Some((pre, out)) = layer_ref_n(l, &pb[offs[li]..offs[li] + l.n_params()], &x) {
                    // (single precision: exp(+-20) squared still leaves every quotient term a normal number)
                    if !(pre.max_abs() <= if IS_F32 { 20.0 } else { 100.0 }) {
                        saturated = true;
                    }
                    x = out;
                }
            }
        }
        // an error scale that is not a number (inf - inf in the running bound of a saturated quotient) bounds nothing
        if scales.iter().flatten().any(|s| !s.is_finite()) {
            saturated = true;
        }
        if saturated {
            ctx.count("histories_stopped_when_saturating", 1);
            return;
        }
        if !loss.is_finite() || !(out_ref.max_abs() < 1e6) || !(pmax < 1e6) || grads.iter().flatten().any(|g| !(g.abs() < 1e9)) {
            ctx.count("histories_stopped_when_diverging", 1);
            return;
        }
        ctx.count("iterations_checked", 1);
        if disturbed {
            ctx.count("disturbed_iterations_checked", 1);
        }
        let maxmag = out_ref.max_abs().max(it.input.max_abs()).max(1.0);
        if let Err((k, d)) = compare(&run.outputs[t].dims, &run.outputs[t].vals, &out_ref, Rule::Tol(maxmag * 10.0)) {
            ctx.violation(&format!("C14|output-{}", k), format!("iteration {}: model output: {}\n{}", t, d, desc));
            return;
        }
        let loss_scale = cost_ref(spec.ce, &out_ref, &it.target).unwrap().v.iter().map(|x| x.abs()).sum::<f64>().max(1.0);
        let e = (run.losses[t] - loss).abs();
        ctx.fmax("loss", e / (tau() * loss_scale * 10.0));
        if !(e <= tau() * loss_scale * 10.0) {
            ctx.violation("C14|loss", format!("iteration {}: returned loss {} but the loss of the current parameters on the current batch is {}\n{}", t, run.losses[t], loss, desc));
            return;
        }
        if let Some((_, l2)) = run.late_losses.iter().find(|(i, _)| *i == t) {
            ctx.count("backward_calls_after_update_checked", 1);
            if !((l2 - loss).abs() <= tau() * loss_scale * 10.0) {
                ctx.violation("C14|loss-of-backward-after-update", format!("iteration {}: backward called again after the update (same forward pass, same target) returned {} but the cost array of that forward pass sums to {}\n{}", t, l2, loss, desc));
                return;
            }
        }
        let mult = if it.double_backward { 2.0 } else { 1.0 };
        if ctx.verbose {
            eprintln!("iteration {} double={} input {:?} {:?}\n target {:?}\n params {:?}\n out_ref {:?}\n out_obs {:?}\n loss_ref {} loss_obs {}\n grads_ref {:?}\n grads_obs {:?}", t, it.double_backward, it.input.dims, it.input.v, it.target.v, pb.iter().map(|p| p.v.clone()).collect::<Vec<_>>(), out_ref.v, run.outputs[t].vals, loss, run.losses[t], grads, before.iter().map(|b| b.grad.as_ref().map(|g| g.vals.clone())).collect::<Vec<_>>());
        }
        for (i, b) in before.iter().enumerate() {
            if !tracked_at[t][i] {
                // frozen by the user before this iteration: receives nothing and is left as it is
                ctx.count("frozen_parameters_checked", 1);
                let a = &after[i];
                if b.grad.is_some() || a.has_grad {
                    ctx.violation("C14|frozen-parameter-has-gradient", format!("iteration {}: parameter {} was frozen (stop_tracking) before the iteration but reached the optimizer with a gradient\n{}", t, i, desc));
                    return;
                }
                if a.value.dims != b.value.dims || a.value.vals.iter().map(|x| x.to_bits()).ne(b.value.vals.iter().map(|x| x.to_bits())) || a.tracked {
                    ctx.violation("C14|frozen-parameter-changed", format!("iteration {}: parameter {} was frozen and holds no gradient but the update changed it (or its flag)\n{}", t, i, desc));
                    return;
                }
                continue;
            }
            let g = match &b.grad {
                Some(g) => g,
                None => {
                    ctx.violation("C14|gradient-missing", format!("iteration {}: parameter {} reached the optimizer without a gradient\n{}", t, i, desc));
                    return;
                }
            };
            if g.dims != b.value.dims {
                ctx.violation("C14|gradient-dims", format!("iteration {}: parameter {} dims {:?} gradient dims {:?}\n{}", t, i, b.value.dims, g.dims, desc));
                return;
            }
            if kink {
                ctx.count("iterations_skipped_kink", 1);
                continue;
            }
            ctx.count("parameter_gradients_compared", 1);
            for j in 0..g.vals.len() {
                let want = grads[i][j] * mult;
                let sc = (scales[i][j] * mult).max(maxmag).max(1.0) * 10.0;
                let e = (g.vals[j] - want).abs();
                ctx.fmax("gradient", e / (tau() * sc));
                if !(e <= tau() * sc) {
                    ctx.violation(
                        &format!("C14|gradient-values|{}", if spec.is_conv() { "conv" } else { "dense" }),
                        format!("iteration {}: parameter {} element {}: the optimizer saw gradient {} but the gradient of the current loss is {}\n{}", t, i, j, g.vals[j], want, desc),
                    );
                    return;
                }
            }
            // the step
            let a = &after[i];
            if a.value.dims != b.value.dims {
                ctx.violation("C14|step-dims", format!("iteration {}: parameter {} changed dims {:?} -> {:?}\n{}", t, i, b.value.dims, a.value.dims, desc));
                return;
            }
            for j in 0..g.vals.len() {
                let want = b.value.vals[j] - spec.lr * grads[i][j] * mult;
                let sc = (b.value.vals[j].abs() + spec.lr.abs() * scales[i][j] * mult).max(1.0) * 10.0;
                if !((a.value.vals[j] - want).abs() <= tau() * sc) {
                    ctx.violation(
                        "C14|step-values",
                        format!("iteration {}: parameter {} element {}: {} -> {} but one step along the true gradient gives {} (lr {})\n{}", t, i, j, b.value.vals[j], a.value.vals[j], want, spec.lr, desc),
                    );
                    return;
                }
            }
            if a.has_grad || !a.tracked {
                ctx.violation("C14|after-update-state", format!("iteration {}: parameter {} after update: holds gradient={} tracked={}\n{}", t, i, a.has_grad, a.tracked, desc));
                return;
            }
        }
        prev_after = Some(after.iter().map(|a| a.value.clone()).collect());
    }
}
