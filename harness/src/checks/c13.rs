//! C13 - a gradient-descent update is exactly one step per parameter and clears gradients.

use super::shapes::*;
use super::CheckDef;
use crate::cg::*;
use crate::ctx::{guard, panic_class, Ctx, Tier};
use crate::refmodel::numel;
use crate::rng::Rng;
use corgi::array::Array;
use corgi::numbers::Float;
use corgi::optimizer::gd::GradientDescent;
use corgi::optimizer::Optimizer;

pub static DEF: CheckDef = CheckDef {
    id: "C13",
    families,
    run_case,
    rule: "one GradientDescent object per case (half of the time first used on another list of the same length and other sizes); learning rates incl. 0 and negative ones; subsets: for n = 1..6 parameters EVERY subset holding a gradient (126 (n, subset) pairs, cycled) with random \
           shapes of rank 1..4 incl. unit dims; gradients installed through gradient_mut() or produced by real \
           backward passes (incl. broadcast parameters); learning rates {0, 2^-3, 0.25, 0.5, 1, 0.1, 0.37}; 1..4 \
           repeated updates with changing frozen subsets; parameters may be untracked handles. Expected values are \
           computed in the build's float type (old - lr*g), compared bit for bit on dyadic data and within 2 ulp otherwise; parameters without gradient must \
           keep dims, values, flag and the very same buffer. Non-trivial = at least two parameters with a frozen one \
           before an updated one; distinct = distinct (n, subset, shapes, lr, install mode).",
    floors,
    exhaustive: |_| Some("every (n, subset-with-gradient) pair for n <= 6 parameters is visited (shapes and data random)"),
    assumptions: &["IEEE arithmetic: old - lr*g evaluated as one product and one subtraction in the build's float type"],
};

fn families(t: Tier) -> Vec<(&'static str, u64)> {
    vec![("subsets", t.n(126 * 40, 126 * 10_000)), ("passes", t.n(3_000, 500_000))]
}
fn floors(_t: Tier) -> Vec<(&'static str, u64)> {
    vec![("evaluations", 6_000), ("updates", 8_000), ("parameters_checked_updated", 15_000), ("parameters_checked_frozen", 10_000), ("stale_graph_passes_after_update", 600), ("fresh_graph_passes_after_update", 300), ("optimizer_reused_after_another_list", 1_000)]
}

struct Param {
    a: Array,
    old_clone: Array,
    dims: Vec<usize>,
    old: Vec<Float>,
    grad: Option<Vec<Float>>,
    flag: bool,
    ptr: usize,
    /// second entry of an aliased pair: not checked
    ambiguous: bool,
}

fn check_update(ctx: &mut Ctx, fam: &str, gd: &GradientDescent, params: &mut Vec<Param>, lr: f64, desc: &str) -> bool {
    let lrf = lr as Float;
    let res = guard(|| {
        gd.update(params.iter_mut().map(|p| &mut p.a).collect());
    });
    ctx.count("updates", 1);
    if let Err(m) = res {
        ctx.violation(&format!("C13|{}|panic:{}", fam, panic_class(&m)), format!("update panicked: {}\n{}", m, desc));
        return false;
    }
    let mut ok = true;
    for (i, p) in params.iter().enumerate() {
        if p.ambiguous {
            continue;
        }
        let now_dims = p.a.dimensions().to_vec();
        let now: Vec<Float> = p.a.values().to_vec();
        match &p.grad {
            Some(g) => {
                ctx.count("parameters_checked_updated", 1);
                let want: Vec<Float> = p.old.iter().zip(g).map(|(o, g)| o - lrf * g).collect();
                if now_dims != p.dims {
                    ctx.violation(&format!("C13|{}|updated-dims", fam), format!("parameter {} dims {:?} became {:?}\n{}", i, p.dims, now_dims, desc));
                    ok = false;
                } else if !now.iter().zip(&want).all(|(a, b)| a.to_bits() == b.to_bits() || ulps(*a, *b) <= 2) {
                    ctx.violation(
                        &format!("C13|{}|updated-values", fam),
                        format!("parameter {} after update {:?} want old - lr*g = {:?} (old {:?} g {:?} lr {})\n{}", i, &now[..now.len().min(12)], &want[..want.len().min(12)], &p.old[..p.old.len().min(12)], &g[..g.len().min(12)], lr, desc),
                    );
                    ok = false;
                }
                if !is_tracked(&p.a) {
                    ctx.violation(&format!("C13|{}|updated-not-tracked", fam), format!("parameter {} is untracked after update\n{}", i, desc));
                    ok = false;
                }
                if p.a.gradient().is_some() {
                    ctx.violation(&format!("C13|{}|gradient-not-cleared", fam), format!("parameter {} still holds a gradient after update\n{}", i, desc));
                    ok = false;
                }
            }
            None => {
                ctx.count("parameters_checked_frozen", 1);
                let same = now_dims == p.dims && now.iter().map(|x| x.to_bits()).eq(p.old.iter().map(|x| x.to_bits()));
                if !same {
                    ctx.violation(&format!("C13|{}|frozen-changed", fam), format!("parameter {} holds no gradient but changed: dims {:?}->{:?} values {:?}->{:?}\n{}", i, p.dims, now_dims, &p.old[..p.old.len().min(12)], &now[..now.len().min(12)], desc));
                    ok = false;
                }
                if p.a.values().as_ptr() as usize != p.ptr {
                    ctx.violation(&format!("C13|{}|frozen-reallocated", fam), format!("parameter {} holds no gradient but its handle was replaced by a new array\n{}", i, desc));
                    ok = false;
                }
                if is_tracked(&p.a) != p.flag {
                    ctx.violation(&format!("C13|{}|frozen-flag", fam), format!("parameter {} holds no gradient but its tracking flag changed\n{}", i, desc));
                    ok = false;
                }
                if p.a.gradient().is_some() {
                    ctx.violation(&format!("C13|{}|frozen-got-gradient", fam), format!("parameter {} gained a gradient\n{}", i, desc));
                    ok = false;
                }
            }
        }
        // "... and clears gradients": the step consumed g - a clone of the old parameter kept by the caller (a
        // checkpoint) does not carry it into a later restore
        if p.grad.is_some() && p.old_clone.gradient().is_some() {
            ctx.violation(&format!("C13|{}|gradient-not-consumed", fam), format!("parameter {} was stepped, but a clone of it taken before the update still holds the gradient that was applied\n{}", i, desc));
            ok = false;
        }
        // the array the handle pointed to before is untouched (older clones stay intact)
        if p.old_clone.dimensions() != &p.dims[..] || p.old_clone.values().iter().map(|x| x.to_bits()).ne(p.old.iter().map(|x| x.to_bits())) {
            ctx.violation(&format!("C13|{}|old-handle-changed", fam), format!("a clone of parameter {} taken before the update changed\n{}", i, desc));
            ok = false;
        }
    }
    ok
}

/// distance in units in the last place (same sign, finite values), else a large number
fn ulps(a: Float, b: Float) -> u64 {
    if !(a.is_finite() && b.is_finite()) || (a < 0.0) != (b < 0.0) {
        return if a == b { 0 } else { u64::MAX };
    }
    let (x, y) = (a.abs().to_bits() as u64, b.abs().to_bits() as u64);
    x.max(y) - x.min(y)
}

fn snapshot(a: Array) -> Param {
    let grad = a.gradient().as_ref().map(|g| g.values().to_vec());
    Param {
        old_clone: a.clone(),
        dims: a.dimensions().to_vec(),
        old: a.values().to_vec(),
        grad,
        flag: is_tracked(&a),
        ptr: a.values().as_ptr() as usize,
        ambiguous: false,
        a,
    }
}

pub fn run_case(ctx: &mut Ctx, fam: &str, k: u64, r: &mut Rng) {
    if fam == "subsets" {
        // enumerate (n, subset)
        let mut idx = k % 126;
        let mut n = 1;
        while idx >= (1 << n) {
            idx -= 1 << n;
            n += 1;
        }
        let subset = idx as usize;
        // (the last entry goes with gradients of magnitude 2^70: a huge gradient times a tiny rate is an ordinary step)
        let tiny_rate = (2.0f64).powi(-62);
        let lr = *r.pick(&[0.0, 0.125, 0.25, 0.5, 1.0, 0.1, 0.37, -0.5, -0.1, tiny_rate]);
        // one optimizer object serves every update of the case - and, half of the time, first another parameter list
        // with the same number of entries and other sizes (a hidden-size sweep with one optimizer)
        let gd = GradientDescent::new(lr as Float);
        let dyadic = r.chance(1, 2);
        let mut shapes: Vec<Vec<usize>> = (0..n).map(|_| if r.chance(1, 3) { partner(r, &[2, 3, 1, 2]) } else { rand_shape(r, 4, 3) }).collect();
        let desc = format!("n={} gradient-subset={:0width$b} shapes={:?} lr={}", n, subset, shapes, lr, width = n);
        ctx.case(&format!("subsets|{}|{:b}|{:?}|{}", n, subset, shapes, lr), n >= 2 && subset != 0 && subset & 1 == 0);
        ctx.hist("n_parameters", &n.to_string());
        ctx.sample(&format!("n{}", n), || desc.clone());
        if r.chance(1, 2) {
            let mut decoy: Vec<Param> = (0..n)
                .map(|_| {
                    let ds = rand_shape(r, 3, 4);
                    let m = numel(&ds);
                    let a = arr(&ds, &(0..m).map(|_| 0.25 * r.int(-16, 16)).collect::<Vec<f64>>()).tracked();
                    *a.gradient_mut() = Some(arr(&ds, &(0..m).map(|_| 0.25 * r.int(-16, 16)).collect::<Vec<f64>>()));
                    snapshot(a)
                })
                .collect();
            ctx.count("optimizer_reused_after_another_list", 1);
            if !check_update(ctx, fam, &gd, &mut decoy, lr, &format!("{} (another list of {} parameters updated first with the same optimizer)", desc, n)) {
                return;
            }
        }
        let mut params: Vec<Param> = vec![];
        let mut installed: Vec<Array> = vec![];
        let mut bases: Vec<Array> = vec![];
        for i in 0..n {
            let m = numel(&shapes[i]);
            let v: Vec<f64> = if dyadic { (0..m).map(|_| 0.25 * r.int(-16, 16)).collect() } else { (0..m).map(|_| r.int(-1000, 1000) / 333.0).collect() };
            let mut a = arr(&shapes[i], &v);
            // tied initialisation: now and then a parameter is a view of an earlier parameter's value buffer (same or
            // flat dimensions) - a distinct array with a gradient slot of its own that merely shares its values
            if i >= 1 && r.chance(1, 6) {
                let j = r.below(i);
                let mj = numel(&shapes[j]);
                shapes[i] = if r.chance(1, 2) { shapes[j].clone() } else { vec![mj] };
                a = bases[j].reshape(shapes[i].clone());
                ctx.count("parameters_sharing_a_value_buffer_with_another", 1);
            }
            let m = numel(&shapes[i]);
            bases.push(a.clone());
            let a = if r.chance(4, 5) { a.tracked() } else { a };
            if subset >> i & 1 == 1 {
                let g: Vec<f64> = if lr == tiny_rate {
                    (0..m).map(|_| r.int(-4, 4) * (2.0f64).powi(70)).collect()
                } else if dyadic {
                    (0..m).map(|_| 0.25 * r.int(-16, 16)).collect()
                } else {
                    (0..m).map(|_| r.int(-1000, 1000) / 777.0).collect()
                };
                // usually the gradient has the parameter's dimensions; a user may also install a buffer of the same
                // element count under other dimensions (a flat averaged / clipped gradient): the parameter keeps ITS dims
                let gdims: Vec<usize> = if r.chance(1, 6) { if shapes[i].len() == 1 { vec![1, m] } else { vec![m] } } else { shapes[i].clone() };
                if gdims != shapes[i] {
                    ctx.count("gradients_installed_with_other_dims", 1);
                }
                let ga = arr(&gdims, &g);
                if r.chance(1, 2) {
                    installed.push(ga.clone());
                }
                *a.gradient_mut() = Some(ga);
            }
            params.push(snapshot(a));
        }
        // a list may name one array twice (tied weights: a parameter and a clone of it share the gradient slot). What
        // happens to the second entry is not specified; every OTHER parameter must still get exactly its own step.
        let mut alias_at: Option<usize> = None;
        if n >= 2 && r.chance(1, 6) {
            let src = r.below(params.len());
            if params[src].grad.is_some() {
                let pos = r.range(src + 1, params.len());
                let c = params[src].a.clone();
                let mut sp = snapshot(c);
                sp.ambiguous = true;
                params.insert(pos, sp);
                alias_at = Some(pos);
                ctx.count("lists_with_aliased_entry", 1);
            }
        }
        let rounds = if alias_at.is_some() { 1 } else { r.range(1, 4) };
        for round in 0..rounds {
            if !check_update(ctx, fam, &gd, &mut params, lr, &format!("{} round {}", desc, round)) {
                break;
            }
            // next round: new gradients on a new random subset
            let arrays: Vec<Array> = params.drain(..).map(|p| p.a).collect();
            for a in arrays {
                if r.chance(1, 2) {
                    let m = a.values().len();
                    let g: Vec<f64> = (0..m).map(|_| 0.25 * r.int(-16, 16)).collect();
                    *a.gradient_mut() = Some(arr(a.dimensions(), &g));
                }
                params.push(snapshot(a));
            }
        }
    } else {
        // gradients produced by real passes: y = sum_i x * p_i (+ broadcast), some parameters not used (frozen)
        let full = rand_shape(r, 3, 3);
        // (a list of ONE parameter included: a single user-defined layer)
        let n = r.range(1, 5);
        let lr = *r.pick(&[0.5, 0.25, 1.0, 0.0, -0.25]);
        let gd = GradientDescent::new(lr as Float);
        let x = arr(&full, &rand_ints(r, numel(&full), -3, 3));
        let shapes: Vec<Vec<usize>> = (0..n).map(|_| if r.chance(1, 2) { full.clone() } else { partner(r, &full) }).collect();
        let used: Vec<bool> = (0..n).map(|_| r.chance(2, 3)).collect();
        let desc = format!("passes: x{:?} parameters {:?} used {:?} lr {}", full, shapes, used, lr);
        ctx.case(&format!("passes|{:?}|{:?}|{:?}|{}", full, shapes, used, lr), used.iter().any(|u| !*u) && used.iter().any(|u| *u));
        ctx.sample("passes", || desc.clone());
        let ps: Vec<Array> = shapes.iter().map(|d| arr(d, &rand_ints(r, numel(d), -3, 3)).tracked()).collect();
        // the graph (as in the README loop: the model still holds its output) and gradients fetched by the caller may
        // well be alive while the optimizer runs
        let keep_graph = r.chance(1, 2);
        let keep_grads = r.chance(1, 2);
        let mut kept: Vec<Array> = vec![];
        let mut graph_kept = false;
        let built = guard(|| {
            let mut acc: Option<Array> = None;
            for (p, u) in ps.iter().zip(&used) {
                if *u {
                    let t = &x * p;
                    let t = if r.chance(1, 2) { &t + p } else { t };
                    acc = Some(match acc {
                        None => t,
                        Some(a) => &a + &t,
                    });
                }
            }
            if let Some(root) = acc {
                root.backward(None);
                if r.chance(1, 3) {
                    root.backward(None);
                }
                if keep_grads {
                    for p in &ps {
                        if let Some(g) = p.gradient().as_ref() {
                            kept.push(g.clone());
                        }
                    }
                }
                if keep_graph {
                    kept.push(root);
                    graph_kept = true;
                }
            }
        });
        ctx.hist("alive_during_update", &format!("graph={} fetched-gradients={}", keep_graph, keep_grads));
        if let Err(m) = built {
            ctx.violation(&format!("C13|{}|pass-panic:{}", fam, panic_class(&m)), format!("building gradients panicked: {}\n{}", m, desc));
            return;
        }
        let mut params: Vec<Param> = ps.into_iter().map(snapshot).collect();
        let d2 = format!("{} keep_graph={} keep_grads={}", desc, keep_graph, keep_grads);
        if !check_update(ctx, fam, &gd, &mut params, lr, &d2) {
            return;
        }
        // the replacement is a new array: a pass over the graph recorded BEFORE the update (still alive) feeds the old
        // arrays, and a pass over a graph built on the new arrays leaves the older handles alone
        let stale_pass = graph_kept && r.chance(2, 3);
        let fresh_pass = !stale_pass && r.chance(1, 2);
        let olds: Vec<(Array, bool)> = params.iter().map(|p| (p.old_clone.clone(), p.old_clone.gradient().is_some())).collect();
        let res = guard(|| {
            if stale_pass {
                kept.last().unwrap().backward(None);
            }
            if fresh_pass {
                let mut acc: Option<Array> = None;
                for p in params.iter() {
                    let t = &x * &p.a;
                    acc = Some(match acc {
                        None => t,
                        Some(a) => &a + &t,
                    });
                }
                acc.unwrap().backward(None);
            }
        });
        if let Err(m) = res {
            ctx.violation(&format!("C13|{}|pass-panic:{}", fam, panic_class(&m)), format!("a pass after the update panicked: {}\n{}", m, d2));
            return;
        }
        if stale_pass {
            ctx.count("stale_graph_passes_after_update", 1);
            for (i, p) in params.iter().enumerate() {
                if p.grad.is_some() && p.a.gradient().is_some() {
                    ctx.violation(&format!("C13|{}|stale-graph-feeds-new-parameter", fam), format!("parameter {} was replaced by the update, then the graph recorded before the update was differentiated again: the NEW array received a gradient\n{}", i, d2));
                    return;
                }
            }
            // second update right away: nothing holds a gradient, nothing may move
            let arrays: Vec<Array> = params.drain(..).map(|p| p.a).collect();
            params = arrays.into_iter().map(snapshot).collect();
            check_update(ctx, fam, &gd, &mut params, lr, &format!("{} second update after a pass over the stale graph", d2));
        }
        if fresh_pass {
            ctx.count("fresh_graph_passes_after_update", 1);
            for (i, ((o, had), p)) in olds.iter().zip(params.iter()).enumerate() {
                if p.grad.is_some() && !*had && o.gradient().is_some() {
                    ctx.violation(&format!("C13|{}|old-handle-fed-by-new-graph", fam), format!("a clone of parameter {} taken before the update received a gradient from a pass over a graph built on the NEW arrays only\n{}", i, d2));
                    return;
                }
            }
        }
        drop(kept);
    }
}
