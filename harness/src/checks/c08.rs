//! C08 - arrays are immutable: no operation changes an existing array's values or shape.
//!
//! Snapshot monitor: every handle the history creates or fetches (leaves, results, clones, reshaped views, sum(0)
//! aliases, seeds handed to backward, gradients fetched before later passes accumulate, gradients taken with
//! replace_gradient, parameters before/after optimizer updates) is registered with a bit-exact copy of
//! dimensions()/values(); the whole registry is re-verified after every step and once more after every program
//! handle has been dropped. UB-style in-place writes that no alias happens to observe are the Miri stage's job.

use super::common::*;
use super::CheckDef;
use crate::ctx::{panic_class, Ctx, Tier};
use crate::history::Hist;
use crate::program::*;
use crate::rng::Rng;

pub static DEF: CheckDef = CheckDef {
    id: "C08",
    families,
    run_case,
    rule: "histories (30 steps, thorough 60) over a pool of leaves with every kind of alias kept alive on purpose: \
           build (all differentiable operations incl. matmul, conv, user operations), backward on any live node \
           (seed kept by the caller), keep a clone / reshaped view / sum(0) alias, fetch-and-keep a gradient before \
           later passes accumulate into the slot, clear via replace_gradient (returned array kept) or gradient_mut, \
           GradientDescent::update on subsets of the leaves (older handles and clones kept), drops of other handles; family training: real Model loops whose inputs, targets, outputs, per-layer inputs/outputs, parameters and parameter gradients of every iteration are kept and re-verified after the run; family scoped: hand-written minibatch loops over 1..3 parameters whose graph lives in an inner scope (released before the optimizer update, or held), with views of the parameters taken while tracking is paused (stop_tracking / reshape / start_tracking), clones, tracked reshapes and fetched gradients re-verified after every update. \
           Non-trivial = at least one pass or update ran while >= 5 registered aliases were alive; distinct = \
           distinct history text.",
    floors,
    exhaustive: |_| None,
    assumptions: &["bitwise snapshot equality of dimensions()/values() through the public accessors"],
};

fn families(t: Tier) -> Vec<(&'static str, u64)> {
    vec![("history", t.n(20_000, 300_000)), ("training", t.n(600, 20_000)), ("scoped", t.n(6_000, 200_000))]
}
fn floors(_t: Tier) -> Vec<(&'static str, u64)> {
    vec![
        ("evaluations", 3_000),
        ("handles_registered", 60_000),
        ("snapshot_reverifications", 1_000_000),
        ("steps_pass", 8_000),
        ("steps_update", 2_000),
        ("registered_fetched-gradient", 2_000),
        ("registered_reshaped-view", 2_000),
        ("registered_seed", 3_000),
        ("scoped_updates_with_graph_released", 3_000),
        ("scoped_views_checked", 8_000),
    ]
}

fn run_training(ctx: &mut Ctx, r: &mut Rng) {
    use crate::nn::*;
    let spec = gen_net(r, false);
    let n_iter = r.range(2, 8);
    let params0 = gen_params(r, &spec, false);
    let mut iterations = vec![];
    for _ in 0..n_iter {
        let input = gen_input(r, &spec, false);
        let out = match forward_ref::<f64>(&spec, &params0, &input) {
            Some((o, _)) => o,
            None => return,
        };
        let tg = gen_target(r, &out.dims);
        iterations.push(Iteration::plain(input, tg, r.chance(1, 6)));
    }
    let desc = format!("training|{} iterations={}", spec.describe(), n_iter);
    ctx.case(&desc, true);
    ctx.sample("training", || desc.clone());
    match train_spied(&spec, &params0, &iterations, true) {
        Err(m) => {
            ctx.count("training_panicked(ignored)", 1);
            ctx.hist("ignored_panics", &panic_class(&m));
        }
        Ok(run) => {
            ctx.count("handles_registered", run.kept.len() as u64);
            for k in &run.kept {
                ctx.count("snapshot_reverifications", 1);
                ctx.count(&format!("registered_{}", k.kind), 1);
                if k.a.dimensions() != &k.dims[..] || crate::cg::bits(&k.a) != k.bits {
                    let old: Vec<f64> = k.bits.iter().map(|b| f64::from_bits(*b)).collect();
                    ctx.violation(
                        &format!("C08|training|mutated-{}", k.kind),
                        format!("a {} handle registered in iteration {} changed: dims {:?} -> {:?}, values {} -> {}\n{}", k.kind, k.iteration, k.dims, k.a.dimensions(), crate::cg::short(&old), crate::cg::short(&crate::cg::vals(&k.a)), desc),
                    );
                    break;
                }
            }
        }
    }
}

/// Hand-written minibatch loops (no Model): parameters live in the caller, every iteration builds its graph in an inner
/// scope, runs the pass, releases the graph (or not) and then lets the optimizer step the parameters. Views of the
/// parameters are taken the ways user code takes them - a clone, a reshape while tracking is paused
/// (stop_tracking / reshape / start_tracking), a reshape of an untracked copy, the values of the fetched gradient - and
/// must all still show their snapshot after every later step, whatever the reference counts were at update time.
fn run_scoped(ctx: &mut Ctx, r: &mut Rng) {
    use crate::cg::*;
    use corgi::array::Array;
    use corgi::numbers::Float;
    use corgi::optimizer::{gd::GradientDescent, Optimizer};
    let rank = r.range(1, 3);
    let dims: Vec<usize> = (0..rank).map(|_| r.range(1, 4)).collect();
    let n: usize = dims.iter().product();
    let np = r.range(1, 3);
    let n_iter = r.range(1, 4);
    let mut script: Vec<String> = vec![format!("scoped|dims={:?} params={}", dims, np)];
    struct Kept {
        a: Array,
        dims: Vec<usize>,
        bits: Vec<u64>,
        kind: &'static str,
        born: usize,
    }
    let plan: Vec<(Vec<usize>, Vec<usize>, bool, Vec<bool>, f64)> = (0..n_iter)
        .map(|_| {
            (
                (0..np).map(|_| r.below(5)).collect(),
                (0..r.range(1, 3)).map(|_| r.below(6)).collect(),
                r.chance(1, 4),
                (0..np).map(|_| r.chance(3, 4)).collect(),
                *r.pick(&[1.0, 0.5, 2.0, 0.25]),
            )
        })
        .collect();
    let init: Vec<Vec<f64>> = (0..np).map(|_| (0..n).map(|_| 0.25 * r.int(-8, 8)).collect()).collect();
    script.push(format!("{:?}", plan));
    let desc = script.join(" ");
    ctx.case(&desc, n_iter >= 2);
    ctx.sample("scoped", || desc.clone());
    let res = crate::ctx::guard(|| {
        let mut params: Vec<Array> = init.iter().map(|v| arr(&dims, v).tracked()).collect();
        let mut kept: Vec<Kept> = vec![];
        let mut fails: Vec<(String, String)> = vec![];
        let mut stats = (0u64, 0u64);
        let mut held: Vec<Array> = vec![];
        let keep = |kept: &mut Vec<Kept>, a: Array, kind: &'static str, born: usize| {
            kept.push(Kept { dims: a.dimensions().to_vec(), bits: bits(&a), a, kind, born });
        };
        for (it, (views, ops, hold_graph, upd, lr)) in plan.iter().enumerate() {
            for (pi, v) in views.iter().enumerate() {
                let p = &mut params[pi];
                match v {
                    1 => {
                        p.stop_tracking();
                        let view = p.reshape(vec![n]);
                        p.start_tracking();
                        keep(&mut kept, view, "paused-reshape", it);
                    }
                    2 => keep(&mut kept, p.clone(), "clone", it),
                    3 => {
                        p.stop_tracking();
                        let view = p.reshape(vec![1, n]).reshape(dims.clone());
                        p.start_tracking();
                        keep(&mut kept, view, "paused-double-reshape", it);
                    }
                    4 => keep(&mut kept, p.reshape(vec![n]), "tracked-reshape", it),
                    _ => {}
                }
            }
            {
                // the graph of this iteration
                let mut acc: Array = &params[0] * &params[0];
                for (j, o) in ops.iter().enumerate() {
                    let q = &params[(j + 1) % np];
                    acc = match o {
                        0 => &acc + q,
                        1 => &acc * q,
                        2 => acc.sigmoid(),
                        3 => &acc - &(q * (2.0 as Float)),
                        4 => acc.relu(),
                        _ => (&acc * (0.5 as Float)).exp().reshape(vec![n]).reshape(dims.clone()),
                    };
                }
                acc.backward(None);
                if *hold_graph {
                    held.push(acc);
                }
            }
            if r_chance_static(it) {
                for p in &params {
                    if let Some(g) = p.gradient().as_ref() {
                        keep(&mut kept, g.clone(), "fetched-gradient", it);
                    }
                }
            }
            let graph_released = held.is_empty();
            let gd = GradientDescent::new(*lr as Float);
            let subset: Vec<&mut Array> = params.iter_mut().zip(upd).filter(|(_, u)| **u).map(|(p, _)| p).collect();
            if !subset.is_empty() {
                gd.update(subset);
                if graph_released {
                    stats.0 += 1;
                }
            }
            for k in &kept {
                stats.1 += 1;
                if k.a.dimensions() != &k.dims[..] || bits(&k.a) != k.bits {
                    let old: Vec<f64> = k.bits.iter().map(|b| f64::from_bits(*b)).collect();
                    fails.push((format!("mutated-{}", k.kind), format!("a {} handle taken in iteration {} changed after iteration {}: dims {:?} -> {:?}, values {} -> {}", k.kind, k.born, it, k.dims, k.a.dimensions(), short(&old), short(&vals(&k.a)))));
                    return (fails, stats, kept.len());
                }
            }
            if it % 2 == 1 {
                held.clear();
            }
        }
        (fails, stats, kept.len())
    });
    match res {
        Err(m) => {
            ctx.violation(&format!("C08|scoped|panic:{}", panic_class(&m)), format!("{} panicked: {}", desc, m));
        }
        Ok((fails, stats, nk)) => {
            ctx.count("scoped_updates_with_graph_released", stats.0);
            ctx.count("scoped_views_checked", stats.1);
            ctx.count("snapshot_reverifications", stats.1);
            ctx.count("handles_registered", nk as u64);
            ctx.meta(|| format!("{} kept={}", desc, nk));
            for (k, d) in fails {
                ctx.violation(&format!("C08|scoped|{}", k), format!("{}\n{}", d, desc));
            }
        }
    }
}
fn r_chance_static(it: usize) -> bool {
    it % 2 == 0
}

pub fn run_case(ctx: &mut Ctx, fam: &str, _k: u64, r: &mut Rng) {
    if fam == "training" {
        return run_training(ctx, r);
    }
    if fam == "scoped" {
        return run_scoped(ctx, r);
    }
    let mut cfg = if r.chance(2, 3) { GenCfg::exact() } else { GenCfg::smooth() };
    cfg.max_ops = 100;
    cfg.untracked_eighths = 1;
    cfg.max_leaves = 4;
    if r.chance(1, 2) {
        // larger arrays (up to 64 elements): size-dependent shortcuts only engage above some threshold
        cfg.max_rank = 2;
        cfg.max_dim = 8;
        cfg.untracked_eighths = 3;
    }
    let mut h = match Hist::new(r, &cfg, true) {
        Ok(h) => h,
        Err(_) => return,
    };
    h.track_slots = false;
    kept_deltas_enable(true);
    let steps = ctx.tier.n(30, 60) as usize;
    let mut kinds: Vec<&'static str> = vec![];
    let mut nontrivial = false;
    for _ in 0..steps {
        if !h.failures.is_empty() {
            break;
        }
        let live_ops = h.live_ops();
        let live = h.live();
        let c = r.below(100);
        let kind: &'static str;
        if c < 32 || live_ops.is_empty() {
            h.build(r, &cfg);
            kind = "build";
        } else if c < 55 {
            let start = if r.chance(1, 2) { *live_ops.last().unwrap() } else { *r.pick(&live_ops) };
            let seed = match rand_seed(r, h.st.refv[start].v.len()) {
                SeedMode::Omitted => SeedMode::Ones,
                s => s,
            };
            h.pass(start, &seed, r.chance(1, 4), false);
            kind = "pass";
            if h.registry.len() >= 5 {
                nontrivial = true;
            }
        } else if c < 62 {
            if r.chance(1, 3) {
                h.flagged_clone(*r.pick(&live), r.chance(1, 3), r.chance(2, 3));
            } else {
                h.keep_clone(*r.pick(&live));
            }
            kind = "keep-clone";
        } else if c < 69 {
            h.keep_view(*r.pick(&live));
            kind = "keep-view";
        } else if c < 79 {
            h.keep_gradient(*r.pick(&live));
            kind = "keep-gradient";
        } else if c < 85 {
            if r.chance(1, 3) {
                h.install(*r.pick(&live), r);
            } else {
                h.clear(*r.pick(&live), r.chance(2, 3));
            }
            kind = "clear";
        } else if c < 94 {
            // optimizer update over a random subset of the live leaves
            let leaves: Vec<usize> = h.st.p.leaves().into_iter().filter(|l| h.handles[*l].is_some() && r.chance(2, 3)).collect();
            if !leaves.is_empty() {
                // parameter handles cloned before the update stay registered (every leaf is registered at creation)
                h.update(&leaves, *r.pick(&[1.0, 2.0, 0.5, 0.0]));
                if h.registry.len() >= 5 {
                    nontrivial = true;
                }
            }
            kind = "update";
        } else {
            h.drop_handle(*r.pick(&live_ops));
            kind = "drop";
        }
        kinds.push(kind);
        h.verify_snapshots();
        if let (_, Some(msg)) = kept_deltas_verify() {
            h.fail("mutated-adjoint-kept-by-user-closure", msg);
        }
    }
    // drop every handle of the program; the registered aliases must still show their snapshots
    for x in h.handles.iter_mut() {
        *x = None;
    }
    h.verify_snapshots();
    let (n_kept_deltas, changed) = kept_deltas_verify();
    if let Some(msg) = changed {
        h.fail("mutated-adjoint-kept-by-user-closure", msg);
    }
    kept_deltas_enable(false);
    ctx.count("adjoints_kept_by_user_closures", n_kept_deltas as u64);
    ctx.case(&h.text(), nontrivial);
    for k in &kinds {
        ctx.count(&format!("steps_{}", k), 1);
    }
    ctx.count("handles_registered", h.registry.len() as u64);
    ctx.count("snapshot_reverifications", h.snapshot_checks);
    for s in &h.registry {
        ctx.count(&format!("registered_{}", s.kind), 1);
        ctx.count(if s.a.is_some() { "snapshots_through_kept_clones" } else { "snapshots_in_place(no extra reference)" }, 1);
    }
    ctx.hist("family", fam);
    ctx.sample(fam, || h.text());
    ctx.meta(|| format!("{} steps={}", h.st.p.desc(), kinds.len()));
    for f in &h.failures {
        // value/gradient mismatches are other properties' business; C08 reports mutations and panics only
        if f.kind.starts_with("mutated") {
            ctx.violation(&format!("C08|{}|{}", fam, f.kind), format!("{}\nhistory: {}", f.detail, h.text()));
        } else if f.kind.ends_with("panic") {
            ctx.violation(
                &format!("C08|{}|{}:{}", fam, f.kind, panic_class(f.detail.split("panicked: ").nth(1).unwrap_or(""))),
                format!("{}\nhistory: {}", f.detail, h.text()),
            );
        } else {
            ctx.count("other_property_failures_ignored", 1);
        }
    }
}
