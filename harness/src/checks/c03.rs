//! C03 - gradients have their array's shape; broadcast contributions are summed (first and later uses, all passes).

use super::c02::{mask_name, mask_of};
use super::common::*;
use super::shapes::*;
use super::CheckDef;
use crate::cg::*;
use crate::ctx::{guard, panic_class, Ctx, Tier};
use crate::program::*;
use crate::refmodel::*;
use crate::rng::Rng;
use corgi::numbers::Float;
use corgi::optimizer::gd::GradientDescent;
use corgi::optimizer::Optimizer;

pub static DEF: CheckDef = CheckDef {
    id: "C03",
    families,
    run_case,
    rule: "uses: every admissible ordered shape pair (rank 1..4, dims 1..3) with a rotating choice of broadcasting \
           operation {add,sub,mul,div,axpy}, use pattern (operand used once; twice by the same operation; twice by \
           different operations; three times through intermediates; squared then broadcast) and 1..3 passes; rand: \
           pairs up to rank 5 / dim 5; matmul-term: batched / transposed matmul with a tracked additive term of every documented form; optimizer: three parameters, the first one broadcast and used twice, updated \
           by GradientDescent after a real pass - every parameter must keep its own dimensions and move by its own \
           gradient. Integer data => exact comparison with the forward-mode reference (division: scaled tolerance). \
           Non-trivial = some tracked operand was actually broadcast (its shape differs from the result's) and \
           received a non-zero gradient; distinct = distinct (shapes, operation, pattern, passes, tracked mask).",
    floors,
    exhaustive: |_| None,
    assumptions: &["forward-mode reference gradient (sums over broadcast positions by construction)"],
};

fn families(t: Tier) -> Vec<(&'static str, u64)> {
    vec![("uses", t.n(14_400, 14_400 * 8)), ("rand", t.n(10_000, 600_000)), ("optimizer", t.n(2_000, 300_000)), ("matmul-term", t.n(4_000, 300_000))]
}
fn floors(_t: Tier) -> Vec<(&'static str, u64)> {
    vec![("evaluations", 9_000), ("broadcast_gradients_compared", 6_000), ("multi_use_cases", 3_000), ("optimizer_updates_checked", 1_500)]
}

const PATTERNS: [&str; 5] = ["once", "twice-same-op", "twice-different-ops", "three-through-intermediates", "squared-then-broadcast"];

fn bop(i: usize) -> OpKind {
    match i % 5 {
        0 => OpKind::Add,
        1 => OpKind::Mul,
        2 => OpKind::Sub,
        3 => OpKind::Axpy(-2.0),
        _ => OpKind::Div,
    }
}

pub fn build(da: &[usize], db: &[usize], va: &[f64], vb: &[f64], mask: &[bool], op: &OpKind, pattern: usize) -> Program {
    let mut p = Program::default();
    let a = p.leaf(da, va, mask[0]);
    let b = p.leaf(db, vb, mask[1]);
    match pattern {
        0 => {
            p.op(op.clone(), &[a, b]);
        }
        1 => {
            let y = p.op(op.clone(), &[a, b]);
            let z = p.op(op.clone(), &[a, b]);
            p.op(OpKind::Add, &[y, z]);
        }
        2 => {
            let y = p.op(OpKind::Add, &[a, b]);
            let z = p.op(OpKind::Mul, &[a, b]);
            p.op(OpKind::Sub, &[y, z]);
        }
        3 => {
            let y = p.op(op.clone(), &[a, b]);
            let z = p.op(OpKind::Mul, &[y, b]);
            p.op(OpKind::Add, &[z, b]);
        }
        _ => {
            let y = p.op(OpKind::Mul, &[b, b]);
            p.op(op.clone(), &[a, y]);
        }
    }
    p
}

pub fn run_case(ctx: &mut Ctx, fam: &str, k: u64, r: &mut Rng) {
    if fam == "optimizer" {
        return run_optimizer(ctx, r);
    }
    if fam == "matmul-term" {
        return run_matmul_term(ctx, k, r);
    }
    let (da, db): (Vec<usize>, Vec<usize>);
    let sel: usize;
    if fam == "uses" {
        let shapes = all_shapes(4, 3);
        let pair = k % 14_400;
        da = shapes[(pair / 120) as usize].clone();
        db = shapes[(pair % 120) as usize].clone();
        sel = (k / 14_400) as usize * 7 + pair as usize;
    } else {
        let full = rand_shape(r, 5, 5);
        if r.chance(1, 2) {
            da = full.clone();
            db = partner(r, &full);
        } else {
            da = partner(r, &full);
            db = partner(r, &full);
        }
        sel = r.below(1000);
    }
    if bshape(&da, &db).is_none() || numel(&bshape(&da, &db).unwrap()) > 400 {
        return;
    }
    let op = bop(sel);
    let pattern = (sel / 5) % 5;
    let passes = 1 + (sel / 25) % 3;
    let mask = mask_of(2, r.below(3));
    let va = rand_ints(r, numel(&da), -3, 3);
    let vb = if op == OpKind::Div || pattern == 4 && op == OpKind::Div { rand_pos(r, numel(&db)) } else { rand_ints(r, numel(&db), -3, 3) };
    let p = build(&da, &db, &va, &vb, &mask, &op, pattern);
    let rr = match eval_ref_plain(&p) {
        Some(x) => x,
        None => return,
    };
    let root = p.root();
    let out_dims = rr.vals[root].dims.clone();
    let seed = rand_seed(r, numel(&out_dims));
    let o = run_and_check(&p, &seed, &CheckOpts { passes, ..Default::default() });
    let a_bc = mask[0] && da != out_dims;
    let b_bc = mask[1] && db != out_dims;
    let desc = format!("{}|{}|p{}|{}|{}", p.desc(), PATTERNS[pattern], passes, mask_name(&mask), seed.name());
    ctx.case(&desc, (a_bc || b_bc) && o.nonzero_grads > 0);
    ctx.hist("cells", &format!("{}|{}|uses-{}|passes-{}", op.family(), super::c04::pair_class(&da, &db), PATTERNS[pattern], passes));
    if a_bc {
        ctx.count("broadcast_gradients_compared", 1);
    }
    if b_bc {
        ctx.count("broadcast_gradients_compared", 1);
    }
    if pattern > 0 {
        ctx.count("multi_use_cases", 1);
    }
    ctx.count("gradients_compared", o.grads_compared);
    ctx.count(if o.exact { "cases_exact_rule" } else { "cases_tolerance_rule" }, 1);
    ctx.fmax("gradient", o.worst_grad_err);
    ctx.sample(PATTERNS[pattern], || format!("{} passes={} seed={:?}", p.pretty(), passes, seed));
    ctx.meta(|| format!("{} {}", desc, o.meta));
    for f in &o.failures {
        let cls = if f.kind.ends_with("panic") { format!("{}:{}", f.kind, panic_class(f.detail.split("panicked: ").nth(1).unwrap_or(""))) } else { f.kind.clone() };
        ctx.violation(
            &format!("C03|{}|{}|{}", op.family(), PATTERNS[pattern], cls),
            format!("{}\nprogram: {}\npasses: {} seed: {:?}", f.detail, p.pretty(), passes, seed),
        );
    }
}

/// The additive term of matmul is broadcast over rows and batches: its gradient must have the term's own shape and be
/// the sum of the adjoint over the broadcast positions ([cols], [1,cols], [rows,cols] under a batch, single element).
fn run_matmul_term(ctx: &mut Ctx, k: u64, r: &mut Rng) {
    let mut case = super::c02::gen_matmul(r, k);
    // a factor shared by a batch (its leading dimensions are absent or 1 where the partner's are not) is a broadcast
    // operand too: its gradient is the sum over the batch
    let shared_factor = {
        let (a, b) = (&case.dims[0], &case.dims[1]);
        let (la, lb) = (&a[..a.len().saturating_sub(2)], &b[..b.len().saturating_sub(2)]);
        a.len() >= 2 && b.len() >= 2 && la != lb
    };
    if case.dims.len() < 3 && !shared_factor {
        return;
    }
    if case.dims.len() >= 3 {
        // the term is tracked; the factors at random
        case.mask = vec![r.chance(1, 2) || shared_factor, r.chance(1, 2) || shared_factor, true];
    } else {
        case.mask = vec![true, true];
        ctx.count("matmul_factor_shared_by_batch", 1);
    }
    let p = case.program();
    let rr = match eval_ref_plain(&p) {
        Some(x) => x,
        None => return,
    };
    let root = p.root();
    let seed = rand_seed(r, rr.vals[root].v.len());
    let passes = 1 + r.below(2);
    let o = run_and_check(&p, &seed, &CheckOpts { passes, ..Default::default() });
    let bc = shared_factor || case.dims[2] != rr.vals[root].dims;
    ctx.case(&format!("{}|{}|p{}|{}", p.desc(), mask_name(&case.mask), passes, seed.name()), bc && o.nonzero_grads > 0);
    ctx.hist("cells", &format!("matmul-term|{}", case.cell));
    if bc {
        ctx.count("broadcast_gradients_compared", 1);
    }
    ctx.count("gradients_compared", o.grads_compared);
    ctx.sample("matmul-term", || format!("{} passes={} seed={:?}", p.pretty(), passes, seed));
    ctx.meta(|| format!("{} {}", p.desc(), o.meta));
    for f in &o.failures {
        let cls = if f.kind.ends_with("panic") { format!("{}:{}", f.kind, panic_class(f.detail.split("panicked: ").nth(1).unwrap_or(""))) } else { f.kind.clone() };
        ctx.violation(&format!("C03|matmul-term|{}|{}", case.cell.split('|').skip(2).collect::<Vec<_>>().join("|"), cls), format!("{}\nprogram: {}\nseed: {:?}", f.detail, p.pretty(), seed));
    }
}

fn run_optimizer(ctx: &mut Ctx, r: &mut Rng) {
    let full = rand_shape(r, 4, 3);
    let d1 = partner(r, &full);
    let d3 = partner(r, &full);
    let x = rand_ints(r, numel(&full), -3, 3);
    let v1 = rand_ints(r, numel(&d1), -3, 3);
    let v2 = rand_ints(r, numel(&full), -3, 3);
    let v3 = rand_ints(r, numel(&d3), -3, 3);
    let lr = *r.pick(&[1.0, 0.5, 0.25, 0.125]);
    let mut p = Program::default();
    let nx = p.leaf(&full, &x, false);
    let p1 = p.leaf(&d1, &v1, true);
    let p2 = p.leaf(&full, &v2, true);
    let p3 = p.leaf(&d3, &v3, true);
    let y = p.op(OpKind::Mul, &[nx, p1]);
    let z = p.op(OpKind::Add, &[y, p1]);
    let w = p.op(OpKind::Mul, &[z, p2]);
    let root = p.op(OpKind::Add, &[w, p3]);
    let desc = format!("optimizer|{:?}|{:?}|{:?}|lr{}", full, d1, d3, lr);
    ctx.case(&desc, d1 != full);
    ctx.sample("optimizer", || format!("{} ; backward(None); GradientDescent({}).update([n1,n2,n3])", p.pretty(), lr));
    let seedv = vec![1.0; numel(&full)];
    let res = guard(|| {
        let mut arrays = eval_corgi(&p);
        arrays[root].backward(None);
        let gd = GradientDescent::new(lr as Float);
        {
            let (_, rest) = arrays.split_at_mut(p1);
            let (a1, rest) = rest.split_first_mut().unwrap();
            let (a2, rest) = rest.split_first_mut().unwrap();
            let (a3, _) = rest.split_first_mut().unwrap();
            gd.update(vec![a1, a2, a3]);
        }
        [p1, p2, p3].iter().map(|i| (arrays[*i].dimensions().to_vec(), vals(&arrays[*i]), grad_of(&arrays[*i]).is_some())).collect::<Vec<_>>()
    });
    match res {
        Err(m) => ctx.violation(&format!("C03|optimizer|panic:{}", panic_class(&m)), format!("pass + update panicked: {}\n{}", m, p.pretty())),
        Ok(after) => {
            ctx.count("optimizer_updates_checked", 1);
            for (j, (node, old)) in [(p1, &v1), (p2, &v2), (p3, &v3)].iter().enumerate() {
                let (g, _) = expected_gradient(&p, *node, &seedv, root).expect("reference");
                let want: Vec<f64> = old.iter().zip(&g).map(|(o, g)| o - lr * g).collect();
                let dims = match &p.nodes[*node] {
                    Node::Leaf { dims, .. } => dims.clone(),
                    _ => unreachable!(),
                };
                let (gd_, gv, has_g) = &after[j];
                if gd_ != &dims {
                    ctx.violation("C03|optimizer|parameter-dims", format!("parameter {} has dims {:?} after update, was {:?}\n{}", j, gd_, dims, p.pretty()));
                } else if gv != &want {
                    ctx.violation(
                        &format!("C03|optimizer|parameter-{}-values", if j == 0 { "broadcast" } else { "later" }),
                        format!("parameter {} after update: {} want {} (old {} gradient {} lr {})\n{}", j, short(gv), short(&want), short(old), short(&g), lr, p.pretty()),
                    );
                }
                if *has_g {
                    ctx.violation("C03|optimizer|gradient-left", format!("parameter {} still holds a gradient after update", j));
                }
            }
        }
    }
}
