//! C11 - one pass evaluates each node's derivative once, with its complete adjoint.
//!
//! Monitor: programs built entirely from user-defined operations (Array::op) whose derivative closures append
//! (node, received seed) to an invocation log and fail fast on a second invocation in one pass - so an exponential
//! regression is reported after n+1 calls instead of timing out. Expected complete adjoint per node from the
//! forward-mode reference (exact integer arithmetic). Built-in operations: the hook trace is reported as coverage.

use super::common::*;
use super::CheckDef;
use crate::cg::*;
use crate::ctx::{guard, panic_class, Ctx, Tier};
use crate::program::*;
use crate::refmodel::*;
use crate::rng::Rng;
use corgi::array::{verif_trace, VerifEvent};
use std::cell::RefCell;
use std::collections::BTreeMap;
use std::rc::Rc;

pub static DEF: CheckDef = CheckDef {
    id: "C11",
    families,
    run_case,
    rule: "topo: ALL straight-line DAG topologies over 2 leaves with 1..3 (thorough 1..4) nodes from {custom_neg, \
           custom_add, custom_mul} x tracked masks {TT,TU,UT}; rand: random DAGs of up to 40 user-defined nodes (neg, \
           add, mul, fma, cube) over 1..3 same-shaped leaves; paused-clone: a second handle of a user node cloned while its tracking is paused, either or both handles switched on again and consumed at different depths; selfchain: chains of self-products x=x*x of depth 10..60 \
           (2^depth paths); diamond: nested diamonds; fanin: 2..16 products summed; builtin: random built-in programs \
           observed through the hook trace (coverage only). Per pass: every reachable operation node's closure is \
           invoked exactly once, after all its consumers, with seed == reference adjoint; unreachable nodes never; \
           total invocations == reachable nodes; 1..2 further passes over the same graph with the same seed handle must \
           invoke every closure once more with the same adjoint; once per worker a scaling probe (thread CPU time of a \
           pass over self-products / stacked diamonds / skip connections of depth 8 vs 18: nodes x2.25, paths x1024, \
           allowed x100) decides 'work proportional to nodes, not paths' without a deadline. Non-trivial = some node has >= 2 consumers in the differentiated \
           graph; distinct = distinct (program text).",
    floors,
    exhaustive: |t| Some(if t == Tier::Thorough {
        "family topo: all 423,580 topologies with <=4 user-defined nodes x 3 tracked masks"
    } else {
        "family topo: all 7,780 topologies with <=3 user-defined nodes x 3 tracked masks"
    }),
    assumptions: &[
        "user closures return Some for every tracked operand and None otherwise, and do not panic on their own",
        "expected adjoints: forward-mode reference, integer data (exact)",
    ],
};

const T1: u64 = 10;
const T2: u64 = 10 * 21;
const T3: u64 = 10 * 21 * 36;
const T4: u64 = 10 * 21 * 36 * 55;

fn families(t: Tier) -> Vec<(&'static str, u64)> {
    vec![
        ("topo", 3 * (T1 + T2 + T3 + t.n(0, T4))),
        ("rand", t.n(15_000, 800_000)),
        ("mixed", t.n(15_000, 800_000)),
        ("toggles", t.n(12_000, 600_000)),
        ("paused-clone", t.n(2_000, 100_000)),
        ("selfchain", t.n(204, 2_040)),
        ("diamond", t.n(300, 6_000)),
        ("fanin", t.n(300, 6_000)),
        ("builtin", t.n(2_000, 200_000)),
    ]
}
fn floors(_t: Tier) -> Vec<(&'static str, u64)> {
    vec![("evaluations", 25_000), ("closure_invocations_logged", 60_000), ("adjoints_compared", 60_000), ("passes_monitored", 25_000), ("builtin_closure_calls_traced", 2_500), ("repeat_passes_monitored", 25_000), ("scaling_probes_measured", 3)]
}

fn topo_program(mut idx: u64, n_ops: usize, mask: usize, r: &mut Rng) -> Program {
    let mut p = Program::default();
    let masks = [(true, true), (true, false), (false, true)];
    let (ta, tb) = masks[mask];
    p.leaf(&[2], &[r.int(-3, 3), r.int(-3, 3)], ta);
    p.leaf(&[2], &[r.int(-3, 3), r.int(1, 3)], tb);
    for i in 0..n_ops {
        let avail = (2 + i) as u64;
        let per = avail + 2 * avail * avail;
        let c = idx % per;
        idx /= per;
        if c < avail {
            p.op(OpKind::CNeg, &[c as usize]);
        } else {
            let c = c - avail;
            let kind = [OpKind::CAdd, OpKind::CMul][(c / (avail * avail)) as usize].clone();
            let rest = c % (avail * avail);
            p.op(kind, &[(rest / avail) as usize, (rest % avail) as usize]);
        }
    }
    p
}

fn gen(ctx: &Ctx, fam: &str, k: u64, r: &mut Rng) -> Program {
    match fam {
        "topo" => {
            let mask = (k % 3) as usize;
            let mut idx = k / 3;
            if idx < T1 {
                return topo_program(idx, 1, mask, r);
            }
            idx -= T1;
            if idx < T2 {
                return topo_program(idx, 2, mask, r);
            }
            idx -= T2;
            if idx < T3 {
                return topo_program(idx, 3, mask, r);
            }
            idx -= T3;
            topo_program(idx, 4, mask, r)
        }
        "rand" => {
            let mut cfg = GenCfg::exact();
            cfg.all_custom = true;
            cfg.uniform_shape = true;
            cfg.unit_values = r.chance(1, 2);
            cfg.max_rank = 2;
            cfg.min_ops = 2;
            cfg.max_ops = if ctx.tier == Tier::Thorough { 40 } else { 40 };
            cfg.untracked_eighths = 2;
            gen_program(r, &cfg)
        }
        "mixed" => {
            // user-defined nodes embedded among built-in operations (incl. sum(0) aliases, broadcasting, matmul)
            let mut cfg = GenCfg::exact();
            cfg.max_ops = 12;
            cfg.conv = false;
            gen_program(r, &cfg)
        }
        "toggles" => {
            // user-defined nodes consumed through tracked and untracked handles in one graph (stop/start_tracking around
            // single uses, untracked() results): an untracked consumer neither counts nor contributes
            let mut cfg = GenCfg::exact();
            cfg.all_custom = r.chance(1, 2);
            cfg.uniform_shape = true;
            cfg.unit_values = r.chance(1, 2);
            cfg.max_rank = 2;
            cfg.min_ops = 3;
            cfg.max_ops = 14;
            cfg.conv = false;
            cfg.toggles = true;
            cfg.untracked_eighths = 1;
            let mut p = gen_program(r, &cfg);
            let root = p.root();
            for i in [root, p.base(root)] {
                if let Node::Op { post, .. } = &mut p.nodes[i] {
                    if *post == Some(false) {
                        *post = None;
                    }
                }
            }
            p
        }
        "paused-clone" => {
            // a second handle of a user node is cloned while the node's tracking is paused; afterwards either or both
            // handles are switched on again and used next to each other, at different depths, in one graph
            let n = r.range(1, 3);
            let mut p = Program::default();
            let ints = |r: &mut Rng| -> Vec<f64> { (0..n).map(|_| r.int(-2, 2)).collect() };
            let va = ints(r);
            let a = p.leaf(&[n], &va, true);
            let vb = ints(r);
            let b = p.leaf(&[n], &vb, !r.chance(1, 4));
            let vk = ints(r);
            let kc = p.leaf(&[n], &vk, r.chance(1, 3));
            let u = p.op([OpKind::CMul, OpKind::CAdd, OpKind::CLibMul][r.below(3)].clone(), &[a, b]);
            // v = u.clone() taken while u is paused
            let v = p.op(OpKind::CloneH, &[u]);
            if let Node::Op { pre, .. } = &mut p.nodes[v] {
                pre.push((u, false));
            }
            let (u_on, v_on) = match r.below(4) {
                0 => (true, false),
                1 => (false, true),
                _ => (true, true),
            };
            // first consumer, through u (or v)
            let first_handle = if r.chance(1, 2) { u } else { v };
            let w1 = p.op([OpKind::CNeg, OpKind::Neg, OpKind::CCube][r.below(3)].clone(), &[first_handle]);
            if let Node::Op { pre, .. } = &mut p.nodes[w1] {
                if u_on {
                    pre.push((u, true));
                }
                if v_on {
                    pre.push((v, true));
                }
            }
            let other = if first_handle == u { v } else { u };
            let w2 = p.op([OpKind::CMul, OpKind::Mul, OpKind::CAdd][r.below(3)].clone(), &[other, kc]);
            let w3 = p.op(OpKind::Add, &[w2, first_handle]);
            p.op([OpKind::CAdd, OpKind::Add][r.below(2)].clone(), &[w1, w3]);
            p
        }
        "selfchain" => {
            let depth = 10 + (k % 51) as usize;
            let n = r.range(1, 2);
            let mut p = Program::default();
            let v: Vec<f64> = (0..n).map(|_| if r.chance(1, 2) { 1.0 } else { -1.0 }).collect();
            let mut cur = p.leaf(&[n], &v, true);
            for _ in 0..depth {
                cur = p.op(OpKind::CMul, &[cur, cur]);
            }
            p
        }
        "diamond" => {
            // s = a (+) b ; p = s (*) s ; q = p (+) s ; repeated with the previous q as the new a
            let levels = r.range(1, 6);
            let mut p = Program::default();
            let mut a = p.leaf(&[2], &[r.int(-1, 1), r.int(-1, 1)], true);
            let b = p.leaf(&[2], &[r.int(-1, 1), r.int(-1, 1)], !r.chance(1, 4));
            for _ in 0..levels {
                let s = p.op(OpKind::CAdd, &[a, b]);
                let pr = p.op(if r.chance(1, 2) { OpKind::CMul } else { OpKind::CAdd }, &[s, s]);
                let q = p.op(OpKind::CAdd, &[pr, s]);
                a = p.op(OpKind::CNeg, &[q]);
            }
            p
        }
        "fanin" => {
            let width = r.range(2, 16);
            let mut p = Program::default();
            let x = p.leaf(&[2], &[r.int(-2, 2), r.int(-2, 2)], true);
            let y = p.leaf(&[2], &[r.int(-2, 2), r.int(-2, 2)], !r.chance(1, 4));
            let terms: Vec<usize> = (0..width)
                .map(|i| match i % 3 {
                    0 => p.op(OpKind::CMul, &[x, y]),
                    1 => p.op(OpKind::CMul, &[x, x]),
                    _ => p.op(OpKind::CNeg, &[x]),
                })
                .collect();
            let mut acc = terms[0];
            for t in &terms[1..] {
                acc = p.op(OpKind::CAdd, &[acc, *t]);
            }
            p
        }
        _ => {
            let cfg = GenCfg::exact();
            gen_program(r, &cfg)
        }
    }
}

fn run_builtin(ctx: &mut Ctx, p: &Program, r: &mut Rng) {
    // coverage only: trace derivative-closure calls of built-in operations through the hook
    let rr = match eval_ref_plain(p) {
        Some(x) => x,
        None => return,
    };
    let root = p.root();
    let seed = rand_seed(r, rr.vals[root].v.len());
    invlog_reset(false);
    let events: Rc<RefCell<Vec<VerifEvent>>> = Rc::new(RefCell::new(vec![]));
    let ev2 = events.clone();
    let res = guard(|| {
        let arrays = eval_corgi(p);
        verif_trace(Some(Box::new(move |e| ev2.borrow_mut().push(e))));
        arrays[root].backward(seed.array(&rr.vals[root].dims));
        verif_trace(None);
    });
    verif_trace(None);
    ctx.case(&format!("builtin|{}", p.desc()), p.max_fanout() >= 2);
    if let Err(m) = res {
        ctx.count("builtin_pass_panicked", 1);
        ctx.hist("builtin_panics", &panic_class(&m));
        return;
    }
    let mut calls: BTreeMap<usize, u64> = BTreeMap::new();
    for e in events.borrow().iter() {
        if let VerifEvent::ClosureCall { node } = e {
            *calls.entry(*node).or_insert(0) += 1;
        }
    }
    ctx.count("builtin_closure_calls_traced", calls.values().sum());
    ctx.count("builtin_nodes_traced", calls.len() as u64);
    let multi = calls.values().filter(|c| **c > 1).count() as u64;
    ctx.count("builtin_nodes_called_more_than_once(info)", multi);
    ctx.hist("builtin_max_calls_per_node", &calls.values().max().copied().unwrap_or(0).to_string());
}

pub fn run_case(ctx: &mut Ctx, fam: &str, k: u64, r: &mut Rng) {
    let p = gen(ctx, fam, k, r);
    if fam == "builtin" {
        return run_builtin(ctx, &p, r);
    }
    let rr = match eval_ref_plain(&p) {
        Some(x) => x,
        None => return,
    };
    let root = p.root();
    let od = rr.vals[root].dims.clone();
    let seed = if fam == "selfchain" { if k % 2 == 0 { SeedMode::Omitted } else { SeedMode::Ones } } else { rand_seed(r, numel(&od)) };
    let seedv = seed.values(numel(&od));
    let reach = reachable_from(&p, root);
    // expected invocations: reachable operation nodes that recorded at least one tracked operand
    let fau = flags_at_use(&p);
    let mut expect_call = vec![false; p.nodes.len()];
    let mut consumers_in_graph = vec![0usize; p.nodes.len()];
    for (i, n) in p.nodes.iter().enumerate() {
        if let Node::Op { args, kind, .. } = n {
            if kind.is_alias() {
                continue;
            }
            // the closure of a reachable node runs when it recorded a derivative: some operand tracked at use, or the
            // derivative was passed unconditionally
            let any_tracked = kind.result_tracked(fau[i].iter().any(|t| *t));
            if reach[i] && any_tracked {
                // only user-defined nodes are observable at the API boundary
                expect_call[i] = kind.is_custom();
                for (a, t) in args.iter().zip(&fau[i]) {
                    if *t {
                        consumers_in_graph[p.base(*a)] += 1;
                    }
                }
            }
        }
    }
    let n_expected = expect_call.iter().filter(|x| **x).count();
    let shared = consumers_in_graph.iter().any(|c| *c >= 2);
    let desc = format!("{}|{}", p.desc(), seed.name());
    ctx.case(&desc, shared && n_expected > 0);
    ctx.hist("family", fam);
    ctx.sample(fam, || format!("{} seed={:?} expected closure invocations={} paths={}", p.pretty(), seed, n_expected, p.path_count()));
    let paths = p.path_count();
    if n_expected > 0 {
        ctx.fmax("paths_per_invocation_log2", (paths / n_expected as f64).max(1.0).log2());
    }
    let arrays = match guard(|| eval_corgi(&p)) {
        Ok(a) => a,
        Err(m) => {
            ctx.violation(&format!("C11|{}|fwd-panic:{}", fam, panic_class(&m)), format!("forward panicked: {}\nprogram: {}", m, p.pretty()));
            return;
        }
    };
    if let Some(v) = scaling_probe() {
        // a pass whose cost grows with the number of paths: report it instead of timing out in the deep cases
        ctx.violation(&format!("C11|scaling|{}", v.0), v.1.clone());
        return;
    }
    PROBE_RATIO.with(|pr| {
        for (name, ratio) in pr.borrow_mut().drain(..) {
            ctx.count("scaling_probes_measured", 1);
            ctx.fmax(&format!("pass cpu time depth 18 / depth 8 / allowed 100x ({})", name), ratio / 100.0);
        }
    });
    // the caller keeps its seed array and hands the same handle to every pass over this graph
    let seed_arr = seed.array(&od);
    invlog_reset(true);
    let res = guard(|| arrays[root].backward(seed_arr.clone()));
    let (log, tripped) = invlog_take();
    invlog_reset(false);
    ctx.count("passes_monitored", 1);
    ctx.count("closure_invocations_logged", log.len() as u64);
    if let Some(node) = tripped {
        ctx.violation(
            &format!("C11|{}|closure-invoked-twice", fam),
            format!(
                "derivative closure of n{} was invoked a second time in one pass (after {} invocations; the graph has {} operation nodes to evaluate)\nprogram: {}",
                node,
                log.len(),
                n_expected,
                p.pretty()
            ),
        );
        return;
    }
    if let Err(m) = res {
        ctx.violation(&format!("C11|{}|bwd-panic:{}", fam, panic_class(&m)), format!("backward panicked: {}\nprogram: {}", m, p.pretty()));
        return;
    }
    // exactly once each, none for unreachable nodes
    let mut pos: BTreeMap<usize, usize> = BTreeMap::new();
    for (i, e) in log.iter().enumerate() {
        pos.insert(e.node, i);
    }
    for (i, exp) in expect_call.iter().enumerate() {
        let got = log.iter().filter(|e| e.node == i).count();
        if *exp && got == 0 {
            ctx.violation(&format!("C11|{}|closure-never-invoked", fam), format!("n{} is reachable through tracked operands but its derivative closure was never invoked\nprogram: {}", i, p.pretty()));
            return;
        }
        if !*exp && got > 0 {
            ctx.violation(&format!("C11|{}|closure-invoked-on-unreachable", fam), format!("n{} is not part of the differentiated graph but its derivative closure was invoked\nprogram: {}", i, p.pretty()));
            return;
        }
    }
    if log.len() != n_expected {
        ctx.violation(&format!("C11|{}|invocation-count", fam), format!("{} invocations for {} reachable operation nodes\nprogram: {}", log.len(), n_expected, p.pretty()));
        return;
    }
    // order: every consumer in the graph is evaluated before the node (direct user-node-to-user-node edges, through
    // aliases)
    for (i, n) in p.nodes.iter().enumerate() {
        if !expect_call[i] {
            continue;
        }
        if let Node::Op { args, .. } = n {
            for (a, t) in args.iter().zip(&fau[i]) {
                let b = p.base(*a);
                if *t && expect_call[b] && pos[&i] > pos[&b] {
                    ctx.violation(
                        &format!("C11|{}|invoked-before-consumer", fam),
                        format!("closure of n{} ran before its consumer n{} had contributed\nprogram: {}", b, i, p.pretty()),
                    );
                    return;
                }
            }
        }
    }
    // complete adjoint
    let bound = shadow_bound(&p, &seedv, root);
    let exact = bound <= exact_bound() || fam == "selfchain";
    let kink = program_has_kink(&p, &rr.vals);
    for e in &log {
        if kink {
            ctx.count("adjoints_skipped_kink", 1);
            continue;
        }
        let (want, wscale) = match expected_gradient_scaled(&p, e.node, &seedv, root, !exact) {
            Some(x) => x,
            None => continue,
        };
        ctx.count("adjoints_compared", 1);
        let dims_ok = e.seed_dims == rr.vals[e.node].dims;
        let vals_ok = if exact {
            e.seed == want
        } else {
            e.seed.iter().zip(&want).zip(&wscale).all(|((a, b), sc)| (a - b).abs() <= tau() * sc.max(b.abs()).max(1.0))
        };
        if !dims_ok || !vals_ok {
            ctx.violation(
                &format!("C11|{}|incomplete-adjoint", fam),
                format!(
                    "closure of n{} received seed dims {:?} values {} but the complete adjoint is dims {:?} values {}\nprogram: {}\nseed: {:?}",
                    e.node,
                    e.seed_dims,
                    short(&e.seed),
                    rr.vals[e.node].dims,
                    short(&want),
                    p.pretty(),
                    seed
                ),
            );
            return;
        }
    }
    ctx.hist("invocations_per_pass", &format!("{:02}", log.len().min(64)));
    // every further pass over the same graph (same seed handle) is a pass like the first: each closure once more, with
    // the same complete adjoint
    let repeats = if fam == "topo" { 1 } else { 2 };
    for rep in 0..repeats {
        invlog_reset(true);
        let res = guard(|| arrays[root].backward(seed_arr.clone()));
        let (log2, tripped) = invlog_take();
        invlog_reset(false);
        ctx.count("repeat_passes_monitored", 1);
        ctx.count("closure_invocations_logged", log2.len() as u64);
        if let Some(node) = tripped {
            ctx.violation(&format!("C11|{}|repeat-pass|closure-invoked-twice", fam), format!("pass {} over the same graph: derivative closure of n{} was invoked a second time in one pass\nprogram: {}", rep + 2, node, p.pretty()));
            return;
        }
        if let Err(m) = res {
            ctx.violation(&format!("C11|{}|repeat-pass|bwd-panic:{}", fam, panic_class(&m)), format!("pass {} over the same graph panicked: {}\nprogram: {}", rep + 2, m, p.pretty()));
            return;
        }
        let key = |l: &Vec<Invocation>| -> Vec<(usize, Vec<usize>, Vec<u64>)> {
            let mut v: Vec<(usize, Vec<usize>, Vec<u64>)> = l.iter().map(|e| (e.node, e.seed_dims.clone(), e.seed.iter().map(|x| (x + 0.0).to_bits()).collect())).collect();
            v.sort();
            v
        };
        let (k1, k2) = (key(&log), key(&log2));
        if k1.len() != k2.len() || k1.iter().zip(&k2).any(|(a, b)| a.0 != b.0) {
            ctx.violation(
                &format!("C11|{}|repeat-pass|invocation-count", fam),
                format!("pass {} over the same graph with the same seed handle invoked {} derivative closures, the first pass {} (each reachable node must be evaluated once per pass)\nprogram: {}\nseed: {:?}", rep + 2, log2.len(), log.len(), p.pretty(), seed),
            );
            return;
        }
        if !kink && exact && k1 != k2 {
            ctx.violation(&format!("C11|{}|repeat-pass|adjoint-differs", fam), format!("pass {} over the same graph delivered different adjoints to the closures than the first pass\nprogram: {}\nseed: {:?}", rep + 2, p.pretty(), seed));
            return;
        }
    }
}

fn thread_cpu_ns() -> u64 {
    #[repr(C)]
    struct Ts {
        sec: i64,
        nsec: i64,
    }
    extern "C" {
        fn clock_gettime(clk: i32, ts: *mut Ts) -> i32;
    }
    let mut t = Ts { sec: 0, nsec: 0 };
    // CLOCK_THREAD_CPUTIME_ID: CPU time of this thread only - waiting for a core on a loaded machine does not count
    let rc = unsafe { clock_gettime(3, &mut t) };
    if rc != 0 {
        return 0;
    }
    t.sec as u64 * 1_000_000_000 + t.nsec as u64
}

/// "Work proportional to nodes and edges, not paths", decided on logical size instead of a deadline: thread CPU time
/// of one pass over a self-product chain / stacked diamonds of depth 8 and of depth 18 (minimum of 5 fresh graphs
/// each). Nodes grow 2.25x, paths 1024x. Reported when the deeper pass costs more than 100x the shallower one (and more
/// than 2 ms). Evaluated once per worker, before any deep case runs.
fn scaling_probe() -> &'static Option<(String, String)> {
    use std::sync::OnceLock;
    static PROBE: OnceLock<Option<(String, String)>> = OnceLock::new();
    PROBE.get_or_init(|| {
        if cfg!(miri) {
            return None;
        }
        let measure = |shape: usize, depth: usize| -> u64 {
            let mut best = u64::MAX;
            for _ in 0..5 {
                let x = arr(&[2], &[1.0, -1.0]).tracked();
                let y = arr(&[2], &[1.0, 1.0]).tracked();
                let mut cur = x.clone();
                for _ in 0..depth {
                    cur = match shape {
                        0 => &cur * &cur,
                        1 => {
                            let s = &cur + &y;
                            &(&s * &s) + &s
                        }
                        _ => {
                            let a = cur.reshape(vec![2]);
                            &(&cur + &a) + &cur
                        }
                    };
                }
                let t0 = thread_cpu_ns();
                cur.backward(None);
                let t1 = thread_cpu_ns();
                best = best.min(t1.saturating_sub(t0));
            }
            best
        };
        for (shape, name) in [(0usize, "self-products"), (1, "stacked-diamonds"), (2, "skip-connections")] {
            let small = measure(shape, 8).max(2_000);
            let big = measure(shape, 18);
            PROBE_RATIO.with(|p| p.borrow_mut().push((name, big as f64 / small as f64)));
            if big > 100 * small && big > 2_000_000 {
                return Some((
                    format!("{}|pass-cost-grows-with-paths", name),
                    format!("one pass over {} of depth 18 took {} ns of thread CPU time, depth 8 took {} ns: nodes and edges grow 2.25x, paths 1024x (allowed: 100x)", name, big, small),
                ));
            }
        }
        None
    })
}
thread_local! {
    static PROBE_RATIO: RefCell<Vec<(&'static str, f64)>> = RefCell::new(vec![]);
}
