//! C16 - construction, row-major layout, indexing and equality are consistent.

use super::shapes::*;
use super::CheckDef;
use crate::cg::*;
use crate::ctx::{guard, panic_class, Ctx, Tier};
use crate::refmodel::*;
use crate::rng::Rng;
use corgi::arr;
use corgi::array::Array;
use corgi::numbers::Float;

pub static DEF: CheckDef = CheckDef {
    id: "C16",
    families,
    run_case,
    rule: "(also: a reshaped view and its base indexed alternately under their own dimensions; arrays differing only in the sign of their zeros are equal) shapes: every shape (rank 1..4, dims 1..3) and random shapes up to rank 6: construction from (dims, values), \
           flat vector, zeros and nested arrays (From<Vec<Array>> recursively, with owned and with shared-buffer \
           children), every full multi-index and every flat index against the row-major formula, refusal of zero \
           dimensions / count mismatch / ragged nests / empty nests; macro: static arr! nests of depth 1..4; equality: \
           truth table (dims equal?, values equal?) x tracking / graph / gradient state of both sides. Non-trivial = \
           more than one element; distinct = distinct (family, shape or table cell).",
    floors,
    exhaustive: |_| Some("family shapes, first 120 indices: all shapes rank 1..4, dims 1..3, all their indices"),
    assumptions: &["row-major offset = sum_i idx[i] * prod_{j>i} dims[j]"],
};

fn families(t: Tier) -> Vec<(&'static str, u64)> {
    vec![("shapes", t.n(120 + 2_000, 120 + 500_000)), ("macro", 8), ("equality", t.n(3_000, 500_000)), ("refusal", t.n(1_000, 150_000))]
}
fn floors(_t: Tier) -> Vec<(&'static str, u64)> {
    vec![("evaluations", 5_000), ("indices_checked", 50_000), ("refusals_observed", 1_000), ("equality_cells", 2_000)]
}

/// build the nested-array construction of `d`/`v` recursively through From<Vec<Array>>
fn nest(d: &[usize], v: &[f64], share: bool) -> Array {
    if d.len() == 1 {
        return Array::from(tf(v));
    }
    let inner: usize = d[1..].iter().product();
    let kids: Vec<Array> = (0..d[0]).map(|i| nest(&d[1..], &v[i * inner..(i + 1) * inner], share)).collect();
    if share {
        // children whose buffers are shared with other live handles (cannot be taken by value)
        let keep: Vec<Array> = kids.iter().map(|k| k.clone()).collect();
        let a = Array::from(kids);
        drop(keep);
        a
    } else {
        Array::from(kids)
    }
}

fn expect_panic(ctx: &mut Ctx, what: &str, f: impl FnOnce() -> Array) {
    match guard(|| {
        let a = f();
        (a.dimensions().to_vec(), a.values().len())
    }) {
        Err(m) => {
            ctx.count("refusals_observed", 1);
            ctx.hist("refusal_messages", &panic_class(&m));
        }
        Ok((d, n)) => ctx.violation(&format!("C16|accepted|{}", what.split(' ').next().unwrap_or("")), format!("{} must panic but returned an array of dims {:?} with {} values", what, d, n)),
    }
}

fn check_array(ctx: &mut Ctx, how: &str, a: &Array, d: &[usize], v: &[f64]) -> bool {
    if a.dimensions() != d || vals(a) != v {
        ctx.violation(
            &format!("C16|construct|{}", how),
            format!("{} for dims {:?}: got dims {:?} values {} want values {}", how, d, a.dimensions(), short(&vals(a)), short(v)),
        );
        return false;
    }
    true
}

pub fn run_case(ctx: &mut Ctx, fam: &str, k: u64, r: &mut Rng) {
    match fam {
        "shapes" => {
            let d = if k < 120 { all_shapes(4, 3)[k as usize].clone() } else { rand_shape(r, 6, 4) };
            let n = numel(&d);
            let v = distinct_vals(n, 10);
            ctx.case(&format!("shapes|{:?}", d), n > 1);
            ctx.hist("shape_class", &shape_class(&d));
            ctx.sample(&shape_class(&d), || format!("construct/index Array{:?} values 10..{}", d, 10 + n - 1));
            let built = guard(|| {
                let a = Array::from((d.clone(), tf(&v)));
                let flat = Array::from(tf(&v));
                let zeros = Array::from(d.clone());
                let nested = nest(&d, &v, false);
                let nested_shared = nest(&d, &v, true);
                (a, flat, zeros, nested, nested_shared)
            });
            let (a, flat, zeros, nested, nested_shared) = match built {
                Ok(x) => x,
                Err(m) => {
                    ctx.violation("C16|construct|panic", format!("construction for dims {:?} panicked: {}", d, m));
                    return;
                }
            };
            ctx.meta(|| format!("{:?} {:?} {:?} {:?}", a.dimensions(), flat.dimensions(), zeros.dimensions(), nested.dimensions()));
            check_array(ctx, "from-dims-values", &a, &d, &v);
            check_array(ctx, "from-flat-vector", &flat, &[n], &v);
            check_array(ctx, "zeros", &zeros, &d, &vec![0.0; n]);
            check_array(ctx, "nested", &nested, &d, &v);
            check_array(ctx, "nested-shared-children", &nested_shared, &d, &v);
            // indexing
            for f in 0..n {
                let idx = unravel(f, &d);
                let want = v[ravel(&idx, &d)];
                ctx.count("indices_checked", 2);
                match guard(|| (a[idx.clone()] as f64, a[f] as f64)) {
                    Ok((m, fl)) => {
                        if m != want {
                            ctx.violation("C16|index|multi", format!("Array{:?}[{:?}] = {} want {}", d, idx, m, want));
                            break;
                        }
                        if fl != want {
                            ctx.violation("C16|index|flat", format!("Array{:?}[{}] = {} want {}", d, f, fl, want));
                            break;
                        }
                    }
                    Err(msg) => {
                        ctx.violation("C16|index|panic", format!("indexing Array{:?} at {:?} / {} panicked: {}", d, idx, f, msg));
                        break;
                    }
                }
            }
            // reshaped views of the same buffer are indexed under THEIR dimensions, also right after the base was indexed
            // under its own (and the other way round)
            if n > 1 {
                let mut alts: Vec<Vec<usize>> = vec![vec![n], vec![1, n], vec![n, 1]];
                if d.len() > 1 {
                    let mut rev = d.clone();
                    rev.reverse();
                    alts.push(rev);
                }
                for f in 2..n {
                    if n % f == 0 {
                        alts.push(vec![f, n / f]);
                    }
                }
                alts.retain(|x| x != &d);
                let alt = r.pick(&alts).clone();
                let res = guard(|| {
                    let view = a.reshape(alt.clone());
                    let mut bad: Option<String> = None;
                    for f in 0..n {
                        let iv = unravel(f, &alt);
                        let ib = unravel(f, &d);
                        let (gv, gb, gv2) = (view[iv.clone()] as f64, a[ib.clone()] as f64, view[iv.clone()] as f64);
                        if gv != v[f] || gb != v[f] || gv2 != v[f] {
                            bad = Some(format!("view{:?}[{:?}] = {} / {}, base{:?}[{:?}] = {}, row-major element {} is {}", alt, iv, gv, gv2, d, ib, gb, f, v[f]));
                            break;
                        }
                    }
                    bad
                });
                ctx.count("indices_checked", 3 * n as u64);
                ctx.count("views_indexed_alternately_with_their_base", 1);
                match res {
                    Ok(None) => {}
                    Ok(Some(msg)) => ctx.violation("C16|index|view-and-base", format!("indexing a reshaped view and its base alternately: {}", msg)),
                    Err(msg) => ctx.violation("C16|index|view-and-base-panic", format!("indexing Array{:?} and its reshape to {:?} alternately panicked: {}", d, alt, msg)),
                }
            }
            // a constructed array is a plain one whatever state its children are in: untracked, no gradient, no graph
            // (nothing flows from it into a tracked child), owning its buffer; a kept child stays usable and unchanged
            {
                let child_state = r.below(4);
                let copies = if r.chance(1, 2) { 1 } else { r.range(2, 3) };
                let res = guard(|| {
                    let child = match child_state {
                        0 => arr(&d, &v),
                        1 => arr(&d, &v).tracked(),
                        2 => {
                            // an operation result with a graph
                            let z = Array::from(d.clone()).tracked();
                            &arr(&d, &v).tracked() + &z
                        }
                        _ => {
                            let a = arr(&d, &v).tracked();
                            let y = &a * &a;
                            y.backward(None);
                            a
                        }
                    };
                    let kids: Vec<Array> = (0..copies).map(|_| child.clone()).collect();
                    let nest = Array::from(kids);
                    let nd = nest.dimensions().to_vec();
                    let nv = vals(&nest);
                    let tracked = is_tracked(&nest);
                    let has_grad = nest.gradient().is_some();
                    // differentiate something built on the nest: the child must not receive anything from it
                    let before = grad_of(&child);
                    let w = Array::from(nd.clone()).tracked();
                    let e = &nest + &w;
                    e.backward(None);
                    let after = grad_of(&child);
                    drop(e);
                    drop(w);
                    let owns = guard(move || {
                        let _v: Vec<Float> = Vec::from(nest);
                    })
                    .is_ok();
                    (nd, nv, tracked, has_grad, before == after, owns, vals(&child))
                });
                ctx.count("nests_of_children_in_various_states", 1);
                match res {
                    Err(m) => ctx.violation("C16|construct|nest-of-stateful-children-panic", format!("nesting {} clone(s) of a child in state {} (dims {:?}) panicked: {}", copies, child_state, d, m)),
                    Ok((nd, nv, tracked, has_grad, child_untouched, owns, cv)) => {
                        let mut wd = vec![copies];
                        wd.extend(&d);
                        let wv: Vec<f64> = (0..copies).flat_map(|_| v.clone()).collect();
                        if nd != wd || nv != wv {
                            ctx.violation("C16|construct|nest-of-stateful-children-values", format!("nest of {} clone(s) of Array{:?} (state {}): dims {:?} values {}", copies, d, child_state, nd, short(&nv)));
                        }
                        if tracked || has_grad || !child_untouched {
                            ctx.violation(
                                "C16|construct|nest-not-plain",
                                format!("nest of {} clone(s) of a child in state {} (dims {:?}): tracked={} holds-gradient={} child-gradient-unchanged-by-a-pass-over-the-nest={}", copies, child_state, d, tracked, has_grad, child_untouched),
                            );
                        }
                        if !owns {
                            ctx.violation("C16|construct|nest-shares-buffer", format!("Vec::from(nest of {} clone(s) of a live child, state {}, dims {:?}) panicked: the constructed array does not own its buffer", copies, child_state, d));
                        }
                        if cv != v {
                            ctx.violation("C16|construct|child-changed", format!("child changed by nesting it: {:?}", d));
                        }
                    }
                }
            }
            // Vec::from round trip
            match guard(|| Vec::<Float>::from(Array::from((d.clone(), tf(&v))))) {
                Ok(back) => {
                    if back.iter().map(|x| *x as f64).ne(v.iter().copied()) {
                        ctx.violation("C16|construct|vec-from", format!("Vec::from(Array{:?}) changed the values", d));
                    }
                }
                Err(m) => ctx.violation("C16|construct|vec-from-panic", format!("Vec::from(Array{:?}) panicked: {}", d, m)),
            }
        }
        "macro" => {
            ctx.case(&format!("macro|{}", k), true);
            let (a, d, v): (Array, Vec<usize>, Vec<f64>) = match k {
                0 => (arr![1.0, 2.0, 3.0], vec![3], vec![1.0, 2.0, 3.0]),
                1 => (arr![7.0], vec![1], vec![7.0]),
                2 => (arr![arr![1.0, 2.0], arr![3.0, 4.0], arr![5.0, 6.0]], vec![3, 2], vec![1.0, 2.0, 3.0, 4.0, 5.0, 6.0]),
                3 => (arr![arr![1.0, 2.0, 3.0]], vec![1, 3], vec![1.0, 2.0, 3.0]),
                4 => (
                    arr![arr![arr![1.0], arr![2.0]], arr![arr![3.0], arr![4.0]]],
                    vec![2, 2, 1],
                    vec![1.0, 2.0, 3.0, 4.0],
                ),
                5 => (
                    arr![arr![arr![arr![1.0, 2.0]], arr![arr![3.0, 4.0]]], arr![arr![arr![5.0, 6.0]], arr![arr![7.0, 8.0]]]],
                    vec![2, 2, 1, 2],
                    (1..=8).map(|x| x as f64).collect(),
                ),
                6 => {
                    let x = arr![1.0, 2.0];
                    (arr![x.clone(), x.clone(), x], vec![3, 2], vec![1.0, 2.0, 1.0, 2.0, 1.0, 2.0])
                }
                _ => (arr![arr![arr![9.0]]], vec![1, 1, 1], vec![9.0]),
            };
            ctx.sample("macro", || format!("arr! nest #{} -> dims {:?}", k, d));
            check_array(ctx, "arr-macro", &a, &d, &v);
        }
        "equality" => {
            let d = if r.chance(1, 2) { all_shapes(3, 3)[r.below(39)].clone() } else { rand_shape(r, 4, 4) };
            let n = numel(&d);
            let v = rand_ints(r, n, -5, 5);
            let same_dims = r.chance(1, 2);
            let same_vals = r.chance(1, 2);
            // other side
            let d2: Vec<usize> = if same_dims {
                d.clone()
            } else {
                // same element count, different dims when possible; else different count
                let mut alt = d.clone();
                if alt.len() > 1 && alt[0] != alt[alt.len() - 1] {
                    alt.reverse();
                } else if n > 1 && d.len() == 1 {
                    alt = vec![1, n];
                } else {
                    alt.push(1);
                }
                alt
            };
            let n2 = numel(&d2);
            let mut v2: Vec<f64> = if n2 == n { v.clone() } else { (0..n2).map(|i| v[i % n]).collect() };
            // a difference of one unit in the last place (or the smallest subnormal next to zero) is a difference
            let mut ulp_at: Option<usize> = None;
            if !same_vals {
                let j = r.below(n2);
                if r.chance(1, 2) {
                    ulp_at = Some(j);
                } else {
                    v2[j] += 1.0;
                }
            }
            let expect = d == d2 && v == v2 && ulp_at.is_none();
            let mk = |dims: &[usize], vals_: &[f64], state: usize, bump: Option<usize>| -> Array {
                let mut fv = tf(vals_);
                if let Some(j) = bump {
                    fv[j] = Float::from_bits(fv[j].to_bits() + 1);
                }
                let a = Array::from((dims.to_vec(), fv));
                match state {
                    0 => a,
                    1 => a.tracked(),
                    2 => {
                        // result of an operation (has a graph), holds a gradient after a pass
                        let z = Array::from(dims.to_vec()).tracked();
                        let s = &a.tracked() + &z;
                        s.backward(None);
                        s
                    }
                    3 => {
                        let a = a.tracked();
                        let y = &a * &a;
                        y.backward(None);
                        a
                    }
                    _ => a.reshape(dims.to_vec()),
                }
            };
            // two handles over ONE buffer with different dimensions (a reshaped view) are different arrays
            if n > 1 && r.chance(1, 3) {
                let alt: Vec<usize> = if d.len() == 1 { vec![1, n] } else { vec![n] };
                ctx.count("equality_cells", 1);
                ctx.hist("equality_table", "shared-buffer dims-ne values-eq");
                match guard(|| {
                    let a = arr(&d, &v);
                    let a = if r.chance(1, 2) { a.tracked() } else { a };
                    let view = a.reshape(alt.clone());
                    let same = a.reshape(d.clone());
                    let alias = a.sum(0);
                    (a == view, view == a, a == same, a == alias, a == a.clone())
                }) {
                    Ok((e1, e2, e3, e4, e5)) => {
                        if e1 || e2 {
                            ctx.violation("C16|equality|shared-buffer-different-dims", format!("Array{:?} == its reshape to {:?} (same buffer, different dimensions) returned true", d, alt));
                        }
                        if !e3 || !e4 || !e5 {
                            ctx.violation("C16|equality|shared-buffer-same-dims", format!("Array{:?} != a view/alias/clone of itself with the same dimensions", d));
                        }
                    }
                    Err(m) => ctx.violation("C16|equality|panic", format!("== panicked: {}", m)),
                }
            }
            // zero is zero whatever its sign: an array of 0.0 equals one of -0.0 (written down, or computed as 0 * -1)
            if r.chance(1, 4) {
                ctx.count("equality_cells", 1);
                ctx.hist("equality_table", "signed-zeros");
                let mixed: Vec<f64> = v.iter().enumerate().map(|(i, x)| if i % 2 == 0 { 0.0 } else { *x }).collect();
                match guard(|| {
                    let pos = arr(&d, &mixed);
                    let neg_written = arr(&d, &mixed.iter().map(|x| if *x == 0.0 { -0.0 } else { *x }).collect::<Vec<f64>>());
                    let neg_computed = &(&pos * (-1.0 as Float)) * (-1.0 as Float);
                    let z = Array::from(d.clone());
                    let nz = -&z;
                    (pos == neg_written, neg_written == pos, pos == (&neg_computed + &nz), z == nz)
                }) {
                    Ok((e1, e2, e3, e4)) => {
                        if !(e1 && e2 && e3 && e4) {
                            ctx.violation("C16|equality|signed-zero", format!("Array{:?}{}: arrays that differ only in the sign of their zeros compared unequal ({} {} {} {})", d, short(&mixed), e1, e2, e3, e4));
                        }
                    }
                    Err(m) => ctx.violation("C16|equality|panic", format!("== panicked: {}", m)),
                }
            }
            let (s1, s2) = (r.below(5), r.below(5));
            ctx.case(&format!("equality|{}{}|{}{}", same_dims as u8, same_vals as u8, s1, s2), true);
            ctx.count("equality_cells", 1);
            ctx.hist("equality_table", &format!("dims-{} values-{} states-{}{}", if d == d2 { "eq" } else { "ne" }, if ulp_at.is_some() { "one-ulp-apart" } else if v == v2 { "eq" } else { "ne" }, s1, s2));
            ctx.sample(&format!("eq{}", expect), || format!("Array{:?}{} (state {}) == Array{:?}{} (state {}) expect {}", d, short(&v), s1, d2, short(&v2), s2, expect));
            match guard(|| {
                let a = mk(&d, &v, s1, None);
                let b = mk(&d2, &v2, s2, ulp_at);
                (a == b, b == a, a != b)
            }) {
                Ok((e1, e2, ne)) => {
                    ctx.meta(|| format!("{:?}{:?} {}", d, d2, e1));
                    if e1 != expect || e2 != expect || ne == expect {
                        ctx.violation(
                            "C16|equality|wrong",
                            format!("Array{:?}{} (state {}) == Array{:?}{} (state {}): got {}/{} (ne {}) want {}", d, short(&v), s1, d2, short(&v2), s2, e1, e2, ne, expect),
                        );
                    }
                }
                Err(m) => ctx.violation("C16|equality|panic", format!("== panicked: {}", m)),
            }
        }
        _ => {
            // refusals
            let d = rand_shape(r, 4, 3);
            let n = numel(&d);
            let v = rand_ints(r, n, -5, 5);
            ctx.case(&format!("refusal|{:?}|{}", d, k % 6), true);
            match k % 6 {
                0 => {
                    let mut z = d.clone();
                    let i = r.below(z.len());
                    z[i] = 0;
                    let z2 = z.clone();
                    expect_panic(ctx, &format!("zero-dimension Array::from(({:?}, []))", z), move || Array::from((z2, Vec::<Float>::new())));
                    let z3 = z.clone();
                    expect_panic(ctx, &format!("zero-dimension zeros Array::from({:?})", z), move || Array::from(z3));
                }
                1 => {
                    let mut vv = tf(&v);
                    vv.push(1.0);
                    let dd = d.clone();
                    expect_panic(ctx, &format!("count-mismatch Array::from(({:?}, {} values))", d, n + 1), move || Array::from((dd, vv)));
                }
                2 => {
                    if n > 1 {
                        let vv = tf(&v[..n - 1]);
                        let dd = d.clone();
                        expect_panic(ctx, &format!("count-mismatch Array::from(({:?}, {} values))", d, n - 1), move || Array::from((dd, vv)));
                    }
                }
                3 => {
                    // ragged nest: children of different shapes
                    let a = arr(&d, &v);
                    let mut d2 = d.clone();
                    let i = r.below(d2.len());
                    d2[i] += 1;
                    let b = Array::from(d2.clone());
                    expect_panic(ctx, &format!("ragged nest of {:?} and {:?}", d, d2), move || Array::from(vec![a, b]));
                    // the odd one out may sit anywhere among three to five children, and may have the right element count
                    let m = r.range(3, 5);
                    let odd = r.below(m);
                    let same_count = n > 1 && d != vec![n];
                    let kids: Vec<Array> = (0..m)
                        .map(|i| if i != odd { arr(&d, &v) } else if same_count && r.chance(1, 2) { arr(&[n], &v) } else { Array::from(d2.clone()) })
                        .collect();
                    expect_panic(ctx, &format!("ragged nest of {} children of {:?}, child {} of another shape", m, d, odd), move || Array::from(kids));
                }
                4 => {
                    expect_panic(ctx, "empty nest Array::from(Vec::<Array>::new())", || Array::from(Vec::<Array>::new()));
                    expect_panic(ctx, "empty values Array::from(Vec::<Float>::new())", || Array::from(Vec::<Float>::new()));
                }
                _ => {
                    // same element count, different dims: still ragged
                    if n > 1 {
                        let a = arr(&d, &v);
                        let b = arr(&[n], &v);
                        if d != vec![n] {
                            expect_panic(ctx, &format!("ragged nest of {:?} and [{}]", d, n), move || Array::from(vec![a, b]));
                            // ... also when the differently shaped children are views of ONE buffer
                            let a = arr(&d, &v);
                            let view = a.reshape(vec![n]);
                            let c = a.clone();
                            expect_panic(ctx, &format!("ragged nest of {:?} and its own reshape to [{}]", d, n), move || Array::from(vec![c, view]));
                        }
                    }
                }
            }
        }
    }
}
