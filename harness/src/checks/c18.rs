//! C18 - dropping results releases everything they held.
//!
//! Monitors: (a) sole-owner probe - `Vec::<Float>::from(leaf)` must succeed once every result derived from the leaf
//! is dropped (with and without stored gradients, after 0..3 passes, with gradients kept by the caller);
//! (b) allocation ledger - live blocks/bytes after a program and all its handles are gone equal those before it was
//! built (second execution; the first one warms lazily initialised state up); in a training loop live bytes at the
//! same point of consecutive iterations are equal; (c) sanitizer stage (valgrind memcheck quick; Miri and
//! ASan/LSan thorough): no definitely/indirectly lost blocks at exit - merged in from scripts/stage_C18.sh.

use super::c01;
use super::common::*;
use super::CheckDef;
use crate::cg::*;
use crate::ctx::{guard, panic_class, Ctx, Tier};
use crate::history::Hist;
use crate::ledger;
use crate::nn::*;
use crate::program::*;
use crate::rng::Rng;
use corgi::array::Array;
use corgi::numbers::Float;

pub static DEF: CheckDef = CheckDef {
    id: "C18",
    families,
    run_case,
    rule: "program: programs from the C01 generators, 0..3 passes from the result and from interior nodes, optional \
           clears, gradients fetched and kept by the caller, result handles dropped in a random order, then every \
           leaf probed with Vec::from (must not panic) - whole case bracketed by the allocation ledger; history: C10 \
           histories (builds, passes on any node, clears, toggles, drops) followed by dropping every result and \
           probing every leaf; training: Model loops (dense / conv stacks, 3..12 iterations, thorough up to 30) - \
           ledger equal at consecutive iteration boundaries and the previous iteration's input and target (also after evaluation-only iterations without update, and after the model is dropped while layers, optimizer and cost closure live on) are sole owners of their \
           buffer after the next forward. Non-trivial = at least one pass ran and at least one tracked leaf was \
           probed; distinct = distinct (program/history text, drop order class).",
    floors,
    exhaustive: |_| None,
    assumptions: &[
        "seeds are untracked (a tracked seed builds a second-order graph through the leaf's own gradient slot - a user-made cycle)",
        "ledger counts the process' allocator traffic at quiescent points; first execution of a case is a warm-up",
    ],
};

fn families(t: Tier) -> Vec<(&'static str, u64)> {
    vec![
        ("program-topo", t.n(3_000, 66_822)),
        ("program-dag-exact", t.n(10_000, 600_000)),
        ("program-dag-smooth", t.n(3_000, 400_000)),
        ("program-readme", t.n(500, 20_000)),
        ("program-conv-graphs", t.n(800, 40_000)),
        ("program-toggles", t.n(4_000, 400_000)),
        ("history", t.n(5_000, 200_000)),
        ("training", t.n(800, 30_000)),
        ("deep-drop", 3),
    ]
}
fn floors(_t: Tier) -> Vec<(&'static str, u64)> {
    let mut v = vec![("evaluations", 10_000), ("sole_owner_probes", 20_000), ("probes_after_passes", 10_000), ("training_input_probes", 600)];
    if ledger::ENABLED {
        v.push(("ledger_checkpoints", 10_000));
        v.push(("training_iteration_boundaries_compared", 600));
    }
    v
}

struct ProgOutcome {
    /// ledger reading after every result was dropped and every gradient cleared, leaves still alive
    mid: (isize, isize),
    probes: u64,
    probe_failures: Vec<(usize, String)>,
    passes: u64,
    panicked: Option<String>,
    kept_gradients: u64,
    /// derivative closures of user operations still alive at that point (each holds a clone of a token)
    closures_alive: usize,
    closures_built: usize,
}

/// Build, differentiate, drop, probe. Allocates nothing that outlives the call except the small outcome.
fn exercise(p: &Program, plan: &Plan) -> ProgOutcome {
    let mut out = ProgOutcome { mid: (0, 0), probes: 0, probe_failures: vec![], passes: 0, panicked: None, kept_gradients: 0, closures_alive: 0, closures_built: 0 };
    closure_token_reset();
    let res = guard(|| {
        let mut handles: Vec<Option<Array>> = eval_corgi(p).into_iter().map(Some).collect();
        let built = user_closures_alive();
        let mut kept: Vec<Array> = vec![];
        let mut passes = 0;
        for (start, seed) in &plan.passes {
            if let Some(h) = &handles[*start] {
                h.backward(seed.as_ref().map(|s| arr(h.dimensions(), s)));
                passes += 1;
            }
            if plan.keep_gradients {
                for l in p.leaves() {
                    if let Some(g) = handles[l].as_ref().unwrap().gradient().as_ref() {
                        kept.push(g.clone());
                    }
                }
            }
        }
        for l in &plan.clear {
            if let Some(h) = &handles[*l] {
                let _ = h.replace_gradient();
            }
        }
        // drop every result derived from the leaves, in the planned order
        for i in &plan.drop_order {
            handles[*i] = None;
        }
        // residual footprint: with the results gone and the gradients handed back, only the leaves themselves may
        // remain (no pending value, no counter-pinned node)
        let nk = kept.len() as u64;
        drop(kept);
        if !plan.probe_with_gradients_stored {
            for l in p.leaves() {
                let _ = handles[l].as_ref().unwrap().replace_gradient();
            }
        }
        invlog_reset(false);
        let mid = ledger::live();
        let alive = user_closures_alive();
        let mut fails = vec![];
        let mut probes = 0;
        for l in p.leaves() {
            let leaf = handles[l].take().unwrap();
            probes += 1;
            if let Err(m) = guard(move || {
                let _v: Vec<Float> = Vec::from(leaf);
            }) {
                fails.push((l, m));
            }
        }
        (probes, fails, passes, nk, mid, alive, built)
    });
    invlog_reset(false);
    match res {
        Ok((pr, f, pa, nk, mid, alive, built)) => {
            out.closures_alive = alive;
            out.closures_built = built;
            out.mid = mid;
            out.probes = pr;
            out.probe_failures = f;
            out.passes = pa;
            out.kept_gradients = nk;
        }
        Err(m) => out.panicked = Some(m),
    }
    out
}

struct Plan {
    /// probe the leaves while the gradients the passes stored are still in place (stored gradients are independent
    /// arrays: none of them may alias another array's buffer); the residual-footprint reading is skipped then
    probe_with_gradients_stored: bool,
    passes: Vec<(usize, Option<Vec<f64>>)>,
    clear: Vec<usize>,
    keep_gradients: bool,
    drop_order: Vec<usize>,
}

fn run_program(ctx: &mut Ctx, fam: &str, k: u64, r: &mut Rng) {
    let sub = &fam["program-".len()..];
    let p = if sub == "toggles" {
        // handles used while untracked and while tracked within one graph (start/stop_tracking, untracked() results)
        let mut cfg = GenCfg::exact();
        cfg.toggles = true;
        cfg.untracked_eighths = 3;
        cfg.max_ops = 9;
        gen_program(r, &cfg)
    } else {
        c01::gen(ctx, sub, k, r)
    };
    let rr = match eval_ref_plain(&p) {
        Some(x) => x,
        None => return,
    };
    let ops: Vec<usize> = (0..p.nodes.len()).filter(|i| matches!(p.nodes[*i], Node::Op { .. })).collect();
    let npass = r.below(4);
    let mut passes = vec![];
    for i in 0..npass {
        let start = if i == 0 || r.chance(1, 2) { p.root() } else { *r.pick(&ops) };
        let n = rr.vals[start].v.len();
        let seed = if r.chance(1, 3) { None } else { Some((0..n).map(|_| r.int(-3, 3)).collect()) };
        passes.push((start, seed));
    }
    let mut drop_order = ops.clone();
    let order_kind = r.below(3);
    match order_kind {
        0 => {}
        1 => drop_order.reverse(),
        _ => r.shuffle(&mut drop_order),
    }
    let plan = Plan {
        probe_with_gradients_stored: r.chance(1, 3),
        passes,
        clear: p.leaves().into_iter().filter(|_| r.chance(1, 4)).collect(),
        keep_gradients: r.chance(1, 2),
        drop_order,
    };
    // warm-up execution, then the measured one
    let _ = exercise(&p, &plan);
    // footprint of the leaves alone (same allocations as the leaves of the program)
    let leaves_only = {
        let mut lp = Program::default();
        for n in &p.nodes {
            if let Node::Leaf { dims, vals, tracked } = n {
                lp.leaf(dims, vals, *tracked);
            }
        }
        let b = ledger::live();
        let hs = eval_corgi(&lp);
        let m = ledger::live();
        // minus the vector that holds the handles
        let vec_bytes = (hs.capacity() * std::mem::size_of::<Array>()) as isize;
        drop(hs);
        (m.0 - b.0 - 1, m.1 - b.1 - vec_bytes)
    };
    let before = ledger::live();
    let o = exercise(&p, &plan);
    let after = ledger::live();
    let tracked_leaf = p.nodes.iter().any(|n| matches!(n, Node::Leaf { tracked: true, .. }));
    let desc = format!("{}|passes{}|order{}|keep{}", p.desc(), npass, order_kind, plan.keep_gradients);
    ctx.case(&desc, o.passes > 0 && tracked_leaf);
    ctx.count("sole_owner_probes", o.probes);
    if o.passes > 0 {
        ctx.count("probes_after_passes", o.probes);
    }
    ctx.count("gradients_kept_by_caller", o.kept_gradients);
    ctx.hist("passes", &npass.to_string());
    ctx.hist("drop_order", ["creation", "reverse", "shuffled"][order_kind]);
    ctx.sample(sub, || format!("{} passes={:?} keep_gradients={} drop_order={:?}", p.pretty(), plan.passes, plan.keep_gradients, plan.drop_order));
    ctx.meta(|| format!("{} {}", desc, o.probe_failures.len()));
    if let Some(m) = &o.panicked {
        // a panic in the passes is another property's business unless it is the probe itself
        ctx.count("program_panicked_outside_probe(ignored)", 1);
        ctx.hist("ignored_panics", &panic_class(m));
        return;
    }
    for (l, m) in &o.probe_failures {
        ctx.violation(
            &format!("C18|{}|leaf-not-sole-owner", sub),
            format!("after dropping every result, Vec::from(n{}) panicked ({}): something still references the leaf's buffer\nprogram: {}\npasses: {:?} keep_gradients={} drop order {:?}", l, m, p.pretty(), plan.passes, plan.keep_gradients, plan.drop_order),
        );
    }
    // arrays built from dimensions alone (zero-initialised accumulators, momentum buffers) are arrays like any other: once
    // what was derived from them is dropped they own their buffer
    if let Some(Node::Leaf { dims, .. }) = p.nodes.first() {
        let dims = dims.clone();
        let res = guard(|| {
            let acc = Array::from(dims.clone());
            let other = Array::from(dims.clone());
            {
                let t = acc.clone().tracked();
                let y = &(&t + &other) * &t;
                y.backward(None);
            }
            let _v: Vec<Float> = Vec::from(acc);
            let _w: Vec<Float> = Vec::from(other);
        });
        ctx.count("sole_owner_probes", 2);
        ctx.count("zero_built_arrays_probed", 2);
        if let Err(m) = res {
            ctx.violation(&format!("C18|{}|zero-built-array-not-sole-owner", sub), format!("an array built with Array::from({:?}) is not the sole owner of its buffer after everything derived from it was dropped ({})", dims, m));
        }
    }
    // every user-operation node holds a derivative closure, every such closure holds a clone of a token: with all
    // results dropped, none may be left (a direct view of "no graph node remains", independent of the allocator ledger)
    ctx.count("user_closures_built", o.closures_built as u64);
    if o.closures_built > 0 {
        ctx.count("programs_with_user_closures_released", 1);
    }
    if o.closures_alive > 0 {
        ctx.violation(
            &format!("C18|{}|user-closure-outlives-results", sub),
            format!("with every result dropped and every gradient cleared, {} of the {} derivative closures handed to Array::op are still alive (a graph node outlived its handles)\nprogram: {}\npasses: {:?} drop order {:?}", o.closures_alive, o.closures_built, p.pretty(), plan.passes, plan.drop_order),
        );
    }
    if ledger::ENABLED {
        ctx.count("ledger_checkpoints", 2);
        // `handles` (a Vec of options) is still allocated at the mid point: one block of n * size_of::<Option<Array>>
        let vec_bytes = (p.nodes.len() * std::mem::size_of::<Option<Array>>()) as isize;
        let residual = (o.mid.0 - before.0 - 1 - leaves_only.0, o.mid.1 - before.1 - vec_bytes - leaves_only.1);
        if plan.probe_with_gradients_stored {
            ctx.count("cases_probed_with_gradients_stored", 1);
        }
        let judge_mid = !p.leaves().is_empty() && !plan.probe_with_gradients_stored;
        let mut mid_bad = residual != (0, 0) && judge_mid;
        let mut end_bad = before != after;
        // A discrepancy must reproduce: something retained per execution shows in every further execution of the same
        // program, whereas lazily grown per-thread state of bounded size (a lookup table that is filled, or emptied and
        // refilled, as geometries come by) settles. Three more executions, each judged like the first.
        if mid_bad || end_bad {
            ctx.count("ledger_discrepancies_rechecked", 1);
            for _ in 0..3 {
                let b2 = ledger::live();
                let o2 = exercise(&p, &plan);
                let a2 = ledger::live();
                let r2 = (o2.mid.0 - b2.0 - 1 - leaves_only.0, o2.mid.1 - b2.1 - vec_bytes - leaves_only.1);
                mid_bad &= r2 != (0, 0);
                end_bad &= b2 != a2;
            }
            if !mid_bad && !end_bad {
                ctx.count("ledger_discrepancies_not_reproduced", 1);
            }
        }
        if mid_bad {
            ctx.violation(
                &format!("C18|{}|residue-after-dropping-results", sub),
                format!("with every result dropped and every gradient cleared, {} block(s) / {} byte(s) beyond the leaves themselves are still allocated (pending value or retained node), and again in three further executions\nprogram: {}\npasses: {:?}", residual.0, residual.1, p.pretty(), plan.passes),
            );
        }
        if end_bad {
            ctx.violation(
                &format!("C18|{}|ledger-not-conserved", sub),
                format!("live allocations before the program {:?} (blocks, bytes), after everything was dropped {:?}; three further executions each left more behind\nprogram: {}\npasses: {:?}", before, after, p.pretty(), plan.passes),
            );
        }
    }
}

fn run_history(ctx: &mut Ctx, r: &mut Rng) {
    let mut cfg = if r.chance(3, 4) { GenCfg::exact() } else { GenCfg::smooth() };
    cfg.max_ops = 100;
    cfg.conv = false;
    if r.chance(1, 4) {
        cfg.max_rank = 2;
        cfg.max_dim = 8;
    }
    let seed_state = r.clone();
    let steps = ctx.tier.n(20, 40) as usize;
    let run = |r: &mut Rng| -> Option<(String, u64, Vec<(usize, String)>, usize)> {
        let mut h = Hist::new(r, &cfg, false).ok()?;
        h.track_slots = false;
        for _ in 0..steps {
            if !h.failures.is_empty() {
                break;
            }
            let live_ops = h.live_ops();
            let c = r.below(100);
            if c < 45 || live_ops.is_empty() {
                h.build(r, &cfg);
            } else if c < 75 {
                let start = if r.chance(1, 2) { *live_ops.last().unwrap() } else { *r.pick(&live_ops) };
                let seed = rand_seed(r, h.st.refv[start].v.len());
                h.pass(start, &seed, r.chance(1, 4), false);
            } else if c < 82 {
                let n = *r.pick(&h.live());
                h.clear(n, r.chance(1, 2));
            } else if c < 90 {
                let n = *r.pick(&h.live());
                h.toggle(n, r.chance(1, 2));
            } else {
                h.drop_handle(*r.pick(&live_ops));
            }
        }
        let text = h.text();
        let passes = h.passes;
        // drop all results, then probe every leaf
        let leaves = h.st.p.leaves();
        let mut taken: Vec<(usize, Array)> = vec![];
        for (i, x) in h.handles.iter_mut().enumerate() {
            if leaves.contains(&i) {
                if let Some(a) = x.take() {
                    taken.push((i, a));
                }
            } else {
                *x = None;
            }
        }
        drop(h);
        let mut fails = vec![];
        let mut probes = 0;
        for (i, a) in taken {
            probes += 1;
            if let Err(m) = guard(move || {
                let _v: Vec<Float> = Vec::from(a);
            }) {
                fails.push((i, m));
            }
        }
        invlog_reset(false);
        Some((text, probes, fails, passes))
    };
    let mut r1 = seed_state.clone();
    let _ = run(&mut r1);
    let mut r2 = seed_state.clone();
    let before = ledger::live();
    let res = run(&mut r2);
    // `res` itself holds allocations (text): measure after taking what we need
    let (text, probes, fails, passes) = match res {
        Some(x) => x,
        None => return,
    };
    let after_with_result = ledger::live();
    *r = r2;
    ctx.case(&text, passes > 0);
    ctx.count("sole_owner_probes", probes);
    if passes > 0 {
        ctx.count("probes_after_passes", probes);
    }
    ctx.sample("history", || text.clone());
    for (l, m) in &fails {
        ctx.violation("C18|history|leaf-not-sole-owner", format!("after dropping every result, Vec::from(n{}) panicked ({})\nhistory: {}", l, m, text));
    }
    if ledger::ENABLED {
        // account for the result tuple we are still holding: its heap blocks are the text and the failure list
        let held_blocks = 1 + if fails.capacity() > 0 { 1 } else { 0 } + fails.len() as isize;
        let held_bytes = text.capacity() as isize + (fails.capacity() * std::mem::size_of::<(usize, String)>()) as isize + fails.iter().map(|f| f.1.capacity() as isize).sum::<isize>();
        ctx.count("ledger_checkpoints", 1);
        if after_with_result.0 - held_blocks != before.0 || after_with_result.1 - held_bytes != before.1 {
            ctx.violation(
                "C18|history|ledger-not-conserved",
                format!("live allocations before the history {:?}, after dropping everything {:?} (minus {} blocks / {} bytes held by the monitor)\nhistory: {}", before, after_with_result, held_blocks, held_bytes, text),
            );
        }
    }
}

fn run_training(ctx: &mut Ctx, r: &mut Rng) {
    // one case in six: wide layers on a batch of 16..24 rows (activations and cost arrays of a thousand values and more)
    let wide = r.chance(1, 6);
    let spec = if wide { gen_wide_net(r) } else { gen_net(r, ctx.tier == Tier::Thorough) };
    if wide {
        ctx.count("training_runs_with_wide_layers", 1);
    }
    let iters = if wide { r.range(3, 5) } else { r.range(3, ctx.tier.n(12, 30) as usize) };
    let desc = format!("{} iterations={}", spec.describe(), iters);
    // half of the runs keep one Model for the whole loop, the other half build one per iteration (see train_ledger)
    let persistent = r.chance(1, 2);
    let res = guard(|| train_ledger(&spec, iters, r.next(), persistent));
    match res {
        Err(m) => {
            ctx.case(&desc, false);
            ctx.count("training_panicked(ignored)", 1);
            ctx.hist("ignored_panics", &panic_class(&m));
        }
        Ok(t) => {
            ctx.case(&desc, true);
            ctx.sample(if spec.is_conv() { "training-conv" } else { "training-dense" }, || format!("{} ledger (blocks,bytes) at iteration boundaries: {:?}", desc, &t.boundaries[..t.boundaries.len().min(6)]));
            ctx.count("training_input_probes", t.input_probes);
            for (it, m) in &t.input_probe_failures {
                let what = if m.starts_with("target") { "target" } else { "input" };
                ctx.violation(
                    &format!("C18|training|previous-{}-still-referenced", what),
                    format!("once the model has moved on (next forward pass, or the model dropped), the {} of iteration {} is still referenced ({})\n{}", what, it, m, desc),
                );
            }
            if ledger::ENABLED {
                // (model-per-iteration runs only) boundaries from the 2nd iteration on must be identical
                for w in t.boundaries.windows(2).skip(1) {
                    ctx.count("training_iteration_boundaries_compared", 1);
                    if w[0] != w[1] {
                        ctx.violation(
                            "C18|training|ledger-grows-per-iteration",
                            format!("live allocations at consecutive iteration boundaries differ: {:?}\n{}", t.boundaries, desc),
                        );
                        break;
                    }
                }
                ctx.count("ledger_checkpoints", 1);
                if t.before_model != t.after_model {
                    ctx.violation(
                        "C18|training|ledger-not-conserved",
                        format!("live allocations before building the model {:?}, after dropping model, layers and data {:?}\n{}", t.before_model, t.after_model, desc),
                    );
                }
            }
        }
    }
}

const DEEP: [usize; 3] = [2_000, 20_000, 300_000];

pub fn run_case(ctx: &mut Ctx, fam: &str, k: u64, r: &mut Rng) {
    if fam == "deep-drop" {
        // releasing a result must work whatever the depth of the graph it holds
        let depth = DEEP[k as usize % DEEP.len()];
        ctx.case(&format!("deep-drop|{}", depth), true);
        ctx.count("deep_drop_probes", 1);
        ctx.sample("deep-drop", || format!("x = a * 1 repeated {} times on an 8 MiB stack; drop(x); Vec::from(a)", depth));
        match deep_chain_probe(depth, "drop") {
            Ok(None) => {}
            Ok(Some((kind, detail))) => ctx.violation(&format!("C18|deep-drop|{}|depth={}|stack=8MiB", kind, depth), detail),
            Err(e) => ctx.count(&format!("deep_drop_probe_unavailable({})", e.chars().take(30).collect::<String>()), 1),
        }
        return;
    }
    match fam {
        "history" => run_history(ctx, r),
        "training" => run_training(ctx, r),
        _ => run_program(ctx, fam, k, r),
    }
}
