//! C19 - the single-precision build gives the same results to single precision.
//!
//! The monitors of C01-C07 recompiled with `--features f32` (corgi/f32): integer-data cases must be bit-identical to
//! the f64 reference after widening (certified by the magnitude shadow with the f32 bound 2^22), smooth cases agree
//! within tau = 2e-5 x (magnitude of the terms involved). In addition every case writes a metadata line (dimensions,
//! panic / no panic, gradient presence, tracked flags); the parent diffs the f32 log against the log the f64 build
//! produces for the same seed - any difference means the float width changed shapes, tracking or acceptance.

use super::{c01, c02, c03, c04, c05, c06, c07, c09, c10, c11, c12, c13, c14, c15, c16, c17, CheckDef};
use crate::ctx::{Ctx, Tier};
use crate::rng::Rng;

pub static DEF: CheckDef = CheckDef {
    id: "C19",
    families,
    run_case,
    rule: "the families of C01-C07, and additionally of C09-C17 (half of their quick sizes; thorough: a tenth of their thorough \
           sizes) executed by the f32 build under the f32 comparison rule, plus an offline diff of per-case metadata \
           logs between the f64 and the f32 build. Non-trivial / distinct: as defined by the underlying check for \
           each family.",
    floors,
    exhaustive: |_| None,
    assumptions: &[
        "f64 reference model; f32 exactness bound 2^22 for integer data; tau = 2e-5 for the smooth class",
        "a single correctly rounded operation (C04, division) is compared after rounding the f64 reference to f32",
    ],
};

const INNER: [(&str, &CheckDef); 16] = [
    ("C01", &c01::DEF),
    ("C02", &c02::DEF),
    ("C03", &c03::DEF),
    ("C04", &c04::DEF),
    ("C05", &c05::DEF),
    ("C06", &c06::DEF),
    ("C07", &c07::DEF),
    // beyond the C01-C07 spaces named by the property: the monitors whose oracles involve values or acceptance
    ("C09", &c09::DEF),
    ("C10", &c10::DEF),
    ("C11", &c11::DEF),
    ("C12", &c12::DEF),
    ("C13", &c13::DEF),
    ("C14", &c14::DEF),
    ("C15", &c15::DEF),
    ("C16", &c16::DEF),
    ("C17", &c17::DEF),
];

// static family names "Cxx:family" (the registry wants &'static str)
fn static_name(id: &str, fam: &str) -> &'static str {
    use std::collections::BTreeMap;
    use std::sync::Mutex;
    static NAMES: Mutex<BTreeMap<String, &'static str>> = Mutex::new(BTreeMap::new());
    let key = format!("{}:{}", id, fam);
    let mut m = NAMES.lock().unwrap();
    if let Some(s) = m.get(&key) {
        return s;
    }
    let leaked: &'static str = Box::leak(key.clone().into_boxed_str());
    m.insert(key, leaked);
    leaked
}

fn families(t: Tier) -> Vec<(&'static str, u64)> {
    let mut v = vec![];
    for (id, def) in INNER {
        for (fam, count) in (def.families)(t) {
            let c = match t {
                // (half of the inner quick sizes: the f32 tier repeats sixteen checks on two builds)
                Tier::Quick => (count / 2).max(1),
                Tier::Thorough => (count / 10).max(1),
            };
            v.push((static_name(id, fam), c));
        }
    }
    v
}
fn floors(_t: Tier) -> Vec<(&'static str, u64)> {
    vec![("evaluations", 150_000), ("metadata_lines_compared", 150_000), ("leaf_gradients_compared", 40_000), ("gradients_compared", 20_000)]
}

pub fn run_case(ctx: &mut Ctx, fam: &str, k: u64, r: &mut Rng) {
    let (id, inner_fam) = fam.split_once(':').unwrap_or((fam, ""));
    if let Some((_, def)) = INNER.iter().find(|(i, _)| *i == id) {
        ctx.sig_prefix = "C19|".to_string();
        // the inner check derives its own data from the rng it is handed; re-derive it exactly as the inner check
        // would be seeded so that the f64 and f32 builds explore identical cases
        // the sampled indices are spread over the inner family's whole index space (every 2nd / every 10th case, the
        // offset chosen by the seed), not taken from its beginning
        let kk = match ctx.tier {
            Tier::Quick => 2 * k + ctx.seed % 2,
            Tier::Thorough => 10 * k + ctx.seed % 10,
        };
        let mut rr = Rng::for_case(ctx.seed, def.id, inner_fam, kk);
        let _ = r;
        (def.run_case)(ctx, inner_fam, kk, &mut rr);
        ctx.sig_prefix.clear();
    }
}
