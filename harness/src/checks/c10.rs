//! C10 - gradients accumulate additively across passes; a finished pass leaves no residue.
//!
//! Monitors over the history executor: (1) expected-slot ledger - after every step each live handle's gradient()
//! must equal the sum of the single-pass reference gradients since its last clear (presence included);
//! (2) metamorphic - the increments a pass adds must equal what the same pass produces alone on a fresh instance
//! of the same program (real library both times). The read-only hook steers follow-up passes to nodes with residue.

use super::common::*;
use super::CheckDef;
use crate::ctx::{panic_class, Ctx, Tier};
use crate::history::Hist;
use crate::program::*;
use crate::rng::Rng;

pub static DEF: CheckDef = CheckDef {
    id: "C10",
    families,
    run_case,
    rule: "histories over a pool of 1..3 leaves: steps drawn from {build an operation over live handles (all \
           differentiable operations incl. user operations), backward(seed) on ANY live node - the newest result, an \
           interior node, a leaf, the same node again, directly or through a clone -, clear a gradient via \
           replace_gradient or gradient_mut, start/stop_tracking on a handle, drop a handle}; 20 steps (thorough 40). \
           family untracked-then-tracked: a leaf first used while untracked in a differentiated graph, then \
           start_tracking() and used again; family model-accumulation: parameters of real dense / conv layers \
           accumulate over passes made by hand (layers called directly, cost closure differentiated by the caller) and \
           by a Model (1..3 forward/backward pairs on micro-batches of changing size, no update), compared with the sum \
           of the single-pass reference gradients. After every step all live handles are compared with the ledger. \
           Non-trivial = the history has >= 2 passes and some slot received >= 2 contributions; distinct = distinct \
           history text (program + step list).",
    floors,
    exhaustive: |_| None,
    assumptions: &[
        "single-pass gradients from the forward-mode reference; slots touched by a relu kink are not compared until cleared",
        "which handles store: leaves, results without tracked operands, and results not explicitly untracked()",
    ],
};

fn families(t: Tier) -> Vec<(&'static str, u64)> {
    vec![("history", t.n(15_000, 900_000)), ("untracked-then-tracked", t.n(4_000, 240_000)), ("model-accumulation", t.n(1_500, 120_000))]
}
fn floors(_t: Tier) -> Vec<(&'static str, u64)> {
    vec![
        ("evaluations", 5_000),
        ("passes", 15_000),
        ("slot_comparisons", 300_000),
        ("fresh_replays", 5_000),
        ("passes_repeat-same-node", 1_000),
        ("passes_node-inside-earlier-graph", 1_000),
        ("clears", 2_000),
        ("model_accumulations_compared", 500),
        ("model_accumulation_passes", 3_000),
    ]
}

fn report(ctx: &mut Ctx, fam: &str, h: &Hist) {
    ctx.count("passes", h.passes as u64);
    ctx.count("slot_comparisons", h.slot_checks);
    ctx.count("fresh_replays", h.fresh_replays);
    ctx.count("residue_nodes_seen_by_hook", h.residue_seen);
    for k in &h.pass_kinds {
        ctx.count(&format!("passes_{}", k), 1);
    }
    if h.kinked {
        ctx.count("histories_with_kink_tainted_slots", 1);
    }
    for f in &h.failures {
        let cls = if f.kind.ends_with("panic") { format!("{}:{}", f.kind, panic_class(f.detail.split("panicked: ").nth(1).unwrap_or(""))) } else { f.kind.clone() };
        ctx.violation(&format!("C10|{}|{}", fam, cls), format!("{}\nhistory: {}", f.detail, h.text()));
    }
}

/// Gradient accumulation on the parameters of real layers: passes made by hand (layers called directly, the cost
/// closure applied and differentiated by the caller) and passes made by a Model (forward / backward pairs on several
/// micro-batches, no update in between). Afterwards every parameter's gradient must be the sum of what the passes
/// produce alone (forward-mode reference per pass).
fn run_model_accumulation(ctx: &mut Ctx, r: &mut Rng) {
    use crate::cg::*;
    use crate::ctx::guard;
    use crate::nn::*;
    use corgi::cost::{self, CostFunction};
    use corgi::layer::Layer;
    use corgi::model::Model;
    use corgi::numbers::Float;
    use corgi::optimizer::gd::GradientDescent;
    let spec = gen_net(r, false);
    let params = gen_params(r, &spec, false);
    let rank_unbatched = if spec.is_conv() { 3 } else { 1 };
    let has_batch = spec.in_dims.len() > rank_unbatched;
    let (n_before, n_model, n_after) = (r.below(3), r.range(1, 3), r.below(2));
    let total = n_before + n_model + n_after;
    // a Model pair may call backward twice on one forward (the second pass adds the same gradients again)
    let doubled: Vec<bool> = (0..total).map(|i| i >= n_before && i < n_before + n_model && r.chance(1, 3)).collect();
    let mut batches = vec![];
    for _ in 0..total {
        let mut s2 = spec.clone();
        if has_batch && r.chance(1, 2) {
            s2.in_dims[0] = r.range(1, 4);
        }
        let input = gen_input(r, &s2, false);
        let out = match forward_ref::<f64>(&s2, &params, &input) {
            Some((o, _)) => o,
            None => return,
        };
        let target = gen_target(r, &out.dims);
        batches.push((input, target));
    }
    // the Model pairs may all be scored against ONE target array (the same handle handed in again and again)
    let share_target = n_model >= 2 && r.chance(1, 2) && (n_before..n_before + n_model).all(|k| batches[k].1.dims == batches[n_before].1.dims);
    if share_target {
        let t0 = batches[n_before].1.clone();
        for k in n_before..n_before + n_model {
            batches[k].1 = t0.clone();
        }
        ctx.count("model_pairs_sharing_one_target_array", 1);
    }
    let desc = format!("model-accumulation|{}|shared-target={}|by-hand={} model-pairs={} by-hand-after={} doubled={:?} batches={:?}", spec.describe(), share_target, n_before, n_model, n_after, doubled, batches.iter().map(|b| b.0.dims.clone()).collect::<Vec<_>>());
    ctx.case(&desc, total >= 2);
    ctx.sample("model-accumulation", || desc.clone());
    // reference: sum of the single-pass gradients
    let np = params.len();
    let mut want: Vec<Vec<f64>> = params.iter().map(|p| vec![0.0; p.v.len()]).collect();
    let mut scale: Vec<Vec<f64>> = want.clone();
    let mut kinked = false;
    if batches.iter().any(|(input, _)| saturates(&spec, &params, input)) {
        ctx.count("model_accumulations_skipped_saturating", 1);
        return;
    }
    for (bi, (input, target)) in batches.iter().enumerate() {
        match loss_and_grads(&spec, &params, input, target) {
            Some((loss, g, sc, kink)) => {
                if !loss.is_finite() {
                    return;
                }
                kinked |= kink;
                let times = if doubled[bi] { 2.0 } else { 1.0 };
                for i in 0..np {
                    for j in 0..g[i].len() {
                        want[i][j] += times * g[i][j];
                        scale[i][j] += times * sc[i][j];
                    }
                }
            }
            None => return,
        }
    }
    // the handle `forward` hands back names the prediction: after the Model's backward(s) its gradient - when it holds
    // one - is d(cost)/d(prediction) times the number of passes
    let keep_pred: Vec<u8> = (0..total).map(|i| if i >= n_before && i < n_before + n_model { r.below(3) as u8 } else { 0 }).collect();
    let mut pred_want: Vec<Option<(Vec<f64>, Vec<f64>)>> = vec![None; total];
    for bi in 0..total {
        if keep_pred[bi] == 0 {
            continue;
        }
        let pv: Vec<crate::refmodel::T<crate::refmodel::VA>> = params.iter().map(|p| crate::refmodel::T::from_f64(&p.dims, &p.v)).collect();
        let iv: crate::refmodel::T<crate::refmodel::VA> = crate::refmodel::T::from_f64(&batches[bi].0.dims, &batches[bi].0.v);
        if let Some((o, _)) = forward_ref::<crate::refmodel::VA>(&spec, &pv, &iv) {
            let t = &batches[bi].1;
            if t.dims != o.dims {
                continue;
            }
            let times = if doubled[bi] { 2.0 } else { 1.0 };
            let (mut g, mut sc) = (vec![], vec![]);
            for (oj, tj) in o.v.iter().zip(&t.v) {
                if spec.ce {
                    let lead = o.dims[0] as f64;
                    let gj = -tj / oj.v / lead;
                    g.push(times * gj);
                    sc.push(times * (gj.abs() + tj.abs() * oj.s / (oj.v * oj.v) / lead));
                } else {
                    let n = o.v.len() as f64;
                    let gj = 2.0 * (oj.v - tj) / n;
                    g.push(times * gj);
                    sc.push(times * (gj.abs() + 2.0 * (oj.s + tj.abs()) / n));
                }
            }
            pred_want[bi] = Some((g, sc));
        }
    }
    let mut pred_got: Vec<Option<Option<(Vec<usize>, Vec<f64>)>>> = vec![None; total];
    let pred_got_ref = std::cell::RefCell::new(&mut pred_got);
    let res = guard(|| {
        let a = Acts::new();
        let mut layers = build_layers(&spec, &a, &params);
        let costf: CostFunction = if spec.ce { cost::cross_entropy() } else { cost::mse() };
        let opt = GradientDescent::new(0.5);
        let by_hand = |layers: &Vec<RealLayer>, b: &(crate::refmodel::T<f64>, crate::refmodel::T<f64>)| {
            let mut x = arr_t(&b.0);
            for l in layers.iter() {
                x = l.forward(x);
            }
            let c = costf(&x, &arr_t(&b.1));
            c.backward(None);
        };
        let mut k = 0;
        for _ in 0..n_before {
            by_hand(&layers, &batches[k]);
            k += 1;
        }
        {
            let refs: Vec<&mut dyn Layer> = layers.iter_mut().map(|s| s as &mut dyn Layer).collect();
            let mut model = Model::new(refs, &opt, &costf);
            let shared = arr_t(&batches[k.min(batches.len() - 1)].1);
            for _ in 0..n_model {
                let y = model.forward(arr_t(&batches[k].0));
                let y = if keep_pred[k] == 2 { y.tracked() } else { y };
                let tgt = |k: usize| if share_target { shared.clone() } else { arr_t(&batches[k].1) };
                let _ = model.backward(tgt(k));
                if doubled[k] {
                    let _ = model.backward(tgt(k));
                }
                if keep_pred[k] > 0 {
                    pred_got_ref.borrow_mut()[k] = Some(y.gradient().as_ref().map(|g| (g.dimensions().to_vec(), vals(g))));
                }
                k += 1;
            }
        }
        for _ in 0..n_after {
            by_hand(&layers, &batches[k]);
            k += 1;
        }
        let mut got: Vec<Option<(Vec<usize>, Vec<f64>)>> = vec![];
        for l in layers.iter_mut() {
            for p in l.parameters() {
                got.push(p.gradient().as_ref().map(|g| (g.dimensions().to_vec(), vals(g))));
            }
        }
        let _ = 0.0 as Float;
        got
    });
    ctx.count("model_accumulation_passes", total as u64);
    let got = match res {
        Ok(g) => g,
        Err(m) => {
            ctx.violation(&format!("C10|model-accumulation|panic:{}", panic_class(&m)), format!("{} panicked: {}", desc, m));
            return;
        }
    };
    ctx.meta(|| format!("{} {:?}", desc, got.iter().map(|g| g.as_ref().map(|x| x.0.clone())).collect::<Vec<_>>()));
    if kinked {
        ctx.count("model_accumulations_skipped_kink", 1);
        return;
    }
    ctx.count("model_accumulations_compared", 1);
    for bi in 0..total {
        let (want_p, got_p) = match (&pred_want[bi], &pred_got[bi]) {
            (Some(w), Some(g)) => (w, g),
            _ => continue,
        };
        match got_p {
            None => {
                // whether an intermediate stores its adjoint is the library's choice (the handle inside the graph is the
                // Model's, not the caller's): absence is counted, not judged
                ctx.count("predictions_without_a_gradient", 1);
            }
            Some((d, v)) => {
                ctx.count("prediction_gradients_compared", 1);
                if v.len() != want_p.0.len() || d != &batches[bi].1.dims {
                    ctx.violation("C10|model-accumulation|prediction-gradient-dims", format!("gradient of the prediction has dims {:?}, the prediction {:?} (pass {})\n{}", d, batches[bi].1.dims, bi, desc));
                    return;
                }
                for j in 0..v.len() {
                    let sc = want_p.1[j].max(1.0) * 10.0;
                    let e = (v[j] - want_p.0[j]).abs();
                    ctx.fmax("model-accumulation-prediction", e / (tau() * sc));
                    if !(e <= tau() * sc) {
                        ctx.violation("C10|model-accumulation|prediction-gradient", format!("gradient of the prediction, element {}: {} after {} backward call(s) of the Model, d cost / d prediction gives {}\n{}", j, v[j], if doubled[bi] { 2 } else { 1 }, want_p.0[j], desc));
                        return;
                    }
                }
            }
        }
    }
    for i in 0..np {
        match &got[i] {
            None => {
                ctx.violation("C10|model-accumulation|gradient-missing", format!("parameter {} holds no gradient after {} passes\n{}", i, total, desc));
                return;
            }
            Some((d, v)) => {
                if d != &params[i].dims {
                    ctx.violation("C10|model-accumulation|gradient-dims", format!("parameter {} dims {:?} gradient dims {:?}\n{}", i, params[i].dims, d, desc));
                    return;
                }
                for j in 0..v.len() {
                    // (an error scale that is not a number bounds nothing: the element is not judged)
                    if !scale[i][j].is_finite() {
                        ctx.count("elements_not_judged_error_scale_not_finite", 1);
                        continue;
                    }
                    let sc = scale[i][j].max(1.0) * 10.0;
                    let e = (v[j] - want[i][j]).abs();
                    ctx.fmax("model-accumulation", e / (tau() * sc));
                    if !(e <= tau() * sc) {
                        ctx.violation(
                            "C10|model-accumulation|not-the-sum-of-the-passes",
                            format!("parameter {} element {}: gradient {} after {} passes, the passes alone give {} in total\n{}", i, j, v[j], total, want[i][j], desc),
                        );
                        return;
                    }
                }
            }
        }
    }
}

pub fn run_case(ctx: &mut Ctx, fam: &str, _k: u64, r: &mut Rng) {
    if fam == "model-accumulation" {
        return run_model_accumulation(ctx, r);
    }
    let mut cfg = if r.chance(3, 4) { GenCfg::exact() } else { GenCfg::smooth() };
    cfg.max_ops = 100;
    cfg.conv = false;
    cfg.untracked_eighths = 2;
    if r.chance(1, 4) {
        // larger arrays (up to 64 elements): size-dependent shortcuts only engage above some threshold
        cfg.max_rank = 2;
        cfg.max_dim = 8;
    }
    let mut h = match Hist::new(r, &cfg, false) {
        Ok(h) => h,
        Err(_) => return,
    };
    let steps = ctx.tier.n(20, 40) as usize;
    let mut clears = 0u64;
    let mut flagged = 0u64;
    let mut last_seed: Option<SeedMode> = None;
    h.reuse_seed_handles = true;
    let mut steered = 0u64;
    if fam == "untracked-then-tracked" {
        // x used untracked inside a differentiated graph, then tracked
        let x = 0;
        h.toggle(x, false);
        for _ in 0..3 {
            h.build(r, &cfg);
        }
        if let Some(root) = h.live_ops().last().copied() {
            let seed = rand_seed(r, h.st.refv[root].v.len());
            h.pass(root, &seed, false, true);
            h.check_slots();
        }
        h.toggle(x, true);
    }
    for _ in 0..steps {
        if !h.failures.is_empty() {
            break;
        }
        let live_ops = h.live_ops();
        let c = r.below(100);
        if c < 40 || live_ops.is_empty() {
            h.build(r, &cfg);
        } else if c < 72 {
            // a pass: newest result, any interior node, sometimes a leaf; steer towards residue when the hook shows some
            let residue = h.residue_nodes();
            let start = if !residue.is_empty() && r.chance(2, 3) {
                steered += 1;
                *r.pick(&residue)
            } else if r.chance(1, 2) {
                *live_ops.last().unwrap()
            } else if r.chance(1, 12) {
                *r.pick(&h.st.p.leaves())
            } else if !h.started.is_empty() && r.chance(1, 3) {
                let s = *r.pick(&h.started);
                if h.handles[s].is_some() {
                    s
                } else {
                    *r.pick(&live_ops)
                }
            } else {
                *r.pick(&live_ops)
            };
            // seeds of very different magnitudes within one history: what an earlier, large pass left behind (a
            // rounding carry, a pending value) must not show in a later, small one
            let seed = match rand_seed(r, h.st.refv[start].v.len()) {
                SeedMode::Ints(v) => {
                    let mag = *r.pick(&[1.0, 1.0, 1.0, 1.0e3, 1.0e6]);
                    SeedMode::Ints(v.iter().map(|x| x * mag).collect())
                }
                s => s,
            };
            // the seed of the previous pass handed in again (the same array, as `seed.clone()`): two passes, two
            // contributions
            let seed = match &last_seed {
                Some(ls) if r.chance(1, 4) && ls.values(h.st.refv[start].v.len()).len() == h.st.refv[start].v.len() && *ls != SeedMode::Omitted => ls.clone(),
                _ => seed,
            };
            last_seed = Some(seed.clone());
            let via_clone = r.chance(1, 4);
            h.pass(start, &seed, via_clone, true);
        } else if c < 80 {
            let live = h.live();
            let n = *r.pick(&live);
            if r.chance(1, 4) {
                // not a clear but a gradient written by the caller: later passes add to it
                h.install(n, r);
            } else {
                h.clear(n, r.chance(1, 2));
            }
            clears += 1;
        } else if c < 88 {
            let live = h.live();
            let n = *r.pick(&live);
            if r.chance(1, 3) {
                h.rebind_flag(n, r.chance(1, 2));
            } else {
                h.toggle(n, r.chance(1, 2));
            }
        } else if c < 95 {
            let n = *r.pick(&live_ops);
            h.drop_handle(n);
        } else {
            // a clone whose flags are changed by value (a detached copy, a constant for something else): the handle it
            // was cloned from keeps its flags and its gradient
            let live = h.live();
            h.flagged_clone(*r.pick(&live), r.chance(1, 3), r.chance(1, 2));
            flagged += 1;
        }
        h.check_slots();
    }
    let multi = h.slot.iter().flatten().any(|s| s.contributions >= 2);
    ctx.case(&h.text(), h.passes >= 2 && multi);
    ctx.count("clears", clears);
    ctx.count("flagged_clones_taken", flagged);
    ctx.count("passes_seeded_with_an_array_used_as_seed_before", h.seeds_handed_in_again);
    ctx.count("steered_passes", steered);
    ctx.hist("family", fam);
    ctx.hist("passes_per_history", &format!("{:02}", h.passes.min(30)));
    ctx.sample(fam, || h.text());
    ctx.meta(|| format!("{} passes={}", h.st.p.desc(), h.passes));
    report(ctx, fam, &h);
}
