//! C10 - gradients accumulate additively across passes; a finished pass leaves no residue.
//!
//! Monitors over the history executor: (1) expected-slot ledger - after every step each live handle's gradient()
//! must equal the sum of the single-pass reference gradients since its last clear (presence included);
//! (2) metamorphic - the increments a pass adds must equal what the same pass produces alone on a fresh instance
//! of the same program (real library both times). The read-only hook steers follow-up passes to nodes with residue.

use super::common::*;
use super::CheckDef;
use crate::ctx::{panic_class, Ctx, Tier};
use crate::history::Hist;
use crate::program::*;
use crate::rng::Rng;

pub static DEF: CheckDef = CheckDef {
    id: "C10",
    families,
    run_case,
    rule: "histories over a pool of 1..3 leaves: steps drawn from {build an operation over live handles (all \
           differentiable operations incl. user operations), backward(seed) on ANY live node - the newest result, an \
           interior node, a leaf, the same node again, directly or through a clone -, clear a gradient via \
           replace_gradient or gradient_mut, start/stop_tracking on a handle, drop a handle}; 20 steps (thorough 40). \
           family untracked-then-tracked: a leaf first used while untracked in a differentiated graph, then \
           start_tracking() and used again. After every step all live handles are compared with the ledger. \
           Non-trivial = the history has >= 2 passes and some slot received >= 2 contributions; distinct = distinct \
           history text (program + step list).",
    floors,
    exhaustive: |_| None,
    assumptions: &[
        "single-pass gradients from the forward-mode reference; slots touched by a relu kink are not compared until cleared",
        "which handles store: leaves, results without tracked operands, and results not explicitly untracked()",
    ],
};

fn families(t: Tier) -> Vec<(&'static str, u64)> {
    vec![("history", t.n(15_000, 900_000)), ("untracked-then-tracked", t.n(4_000, 240_000))]
}
fn floors(_t: Tier) -> Vec<(&'static str, u64)> {
    vec![
        ("evaluations", 5_000),
        ("passes", 15_000),
        ("slot_comparisons", 300_000),
        ("fresh_replays", 5_000),
        ("passes_repeat-same-node", 1_000),
        ("passes_node-inside-earlier-graph", 1_000),
        ("clears", 2_000),
    ]
}

fn report(ctx: &mut Ctx, fam: &str, h: &Hist) {
    ctx.count("passes", h.passes as u64);
    ctx.count("slot_comparisons", h.slot_checks);
    ctx.count("fresh_replays", h.fresh_replays);
    ctx.count("residue_nodes_seen_by_hook", h.residue_seen);
    for k in &h.pass_kinds {
        ctx.count(&format!("passes_{}", k), 1);
    }
    if h.kinked {
        ctx.count("histories_with_kink_tainted_slots", 1);
    }
    for f in &h.failures {
        let cls = if f.kind.ends_with("panic") { format!("{}:{}", f.kind, panic_class(f.detail.split("panicked: ").nth(1).unwrap_or(""))) } else { f.kind.clone() };
        ctx.violation(&format!("C10|{}|{}", fam, cls), format!("{}\nhistory: {}", f.detail, h.text()));
    }
}

pub fn run_case(ctx: &mut Ctx, fam: &str, _k: u64, r: &mut Rng) {
    let mut cfg = if r.chance(3, 4) { GenCfg::exact() } else { GenCfg::smooth() };
    cfg.max_ops = 100;
    cfg.conv = false;
    cfg.untracked_eighths = 2;
    if r.chance(1, 4) {
        // larger arrays (up to 64 elements): size-dependent shortcuts only engage above some threshold
        cfg.max_rank = 2;
        cfg.max_dim = 8;
    }
    let mut h = match Hist::new(r, &cfg, false) {
        Ok(h) => h,
        Err(_) => return,
    };
    let steps = ctx.tier.n(20, 40) as usize;
    let mut clears = 0u64;
    let mut steered = 0u64;
    if fam == "untracked-then-tracked" {
        // x used untracked inside a differentiated graph, then tracked
        let x = 0;
        h.toggle(x, false);
        for _ in 0..3 {
            h.build(r, &cfg);
        }
        if let Some(root) = h.live_ops().last().copied() {
            let seed = rand_seed(r, h.st.refv[root].v.len());
            h.pass(root, &seed, false, true);
            h.check_slots();
        }
        h.toggle(x, true);
    }
    for _ in 0..steps {
        if !h.failures.is_empty() {
            break;
        }
        let live_ops = h.live_ops();
        let c = r.below(100);
        if c < 40 || live_ops.is_empty() {
            h.build(r, &cfg);
        } else if c < 72 {
            // a pass: newest result, any interior node, sometimes a leaf; steer towards residue when the hook shows some
            let residue = h.residue_nodes();
            let start = if !residue.is_empty() && r.chance(2, 3) {
                steered += 1;
                *r.pick(&residue)
            } else if r.chance(1, 2) {
                *live_ops.last().unwrap()
            } else if r.chance(1, 12) {
                *r.pick(&h.st.p.leaves())
            } else if !h.started.is_empty() && r.chance(1, 3) {
                let s = *r.pick(&h.started);
                if h.handles[s].is_some() {
                    s
                } else {
                    *r.pick(&live_ops)
                }
            } else {
                *r.pick(&live_ops)
            };
            let seed = rand_seed(r, h.st.refv[start].v.len());
            let via_clone = r.chance(1, 4);
            h.pass(start, &seed, via_clone, true);
        } else if c < 80 {
            let live = h.live();
            let n = *r.pick(&live);
            h.clear(n, r.chance(1, 2));
            clears += 1;
        } else if c < 88 {
            let live = h.live();
            let n = *r.pick(&live);
            if r.chance(1, 3) {
                h.rebind_flag(n, r.chance(1, 2));
            } else {
                h.toggle(n, r.chance(1, 2));
            }
        } else if c < 95 {
            let n = *r.pick(&live_ops);
            h.drop_handle(n);
        } else {
            // fetch (read) - the comparison below reads every gradient anyway
        }
        h.check_slots();
    }
    let multi = h.slot.iter().flatten().any(|s| s.contributions >= 2);
    ctx.case(&h.text(), h.passes >= 2 && multi);
    ctx.count("clears", clears);
    ctx.count("steered_passes", steered);
    ctx.hist("family", fam);
    ctx.hist("passes_per_history", &format!("{:02}", h.passes.min(30)));
    ctx.sample(fam, || h.text());
    ctx.meta(|| format!("{} passes={}", h.st.p.desc(), h.passes));
    report(ctx, fam, &h);
}
