//! One module per property: workload generator + oracle + evidence counters.

use crate::ctx::{Ctx, Tier};
use crate::rng::Rng;

pub struct CheckDef {
    pub id: &'static str,
    /// families of cases and how many case indices each has in the given tier
    pub families: fn(Tier) -> Vec<(&'static str, u64)>,
    /// run case k of a family; pure function of (seed, family, k)
    pub run_case: fn(&mut Ctx, &str, u64, &mut Rng),
    /// how cases are generated and what makes one non-trivial / distinct
    pub rule: &'static str,
    /// minimum-observation floors (counter name -> minimum); below them the run is inconclusive
    pub floors: fn(Tier) -> Vec<(&'static str, u64)>,
    /// description of the exhaustively enumerated sub-space, if any
    pub exhaustive: fn(Tier) -> Option<&'static str>,
    pub assumptions: &'static [&'static str],
}

pub mod shapes;
pub mod common;
pub mod c01;
pub mod c02;
pub mod c03;
pub mod c04;
pub mod c05;
pub mod c06;
pub mod c07;
pub mod c08;
pub mod c09;
pub mod c10;
pub mod c11;
pub mod c12;
pub mod c13;
pub mod c14;
pub mod c15;
pub mod c16;
pub mod c17;
pub mod c18;
pub mod c19;

pub fn all() -> Vec<&'static CheckDef> {
    vec![&c01::DEF, &c02::DEF, &c03::DEF, &c04::DEF, &c05::DEF, &c06::DEF, &c07::DEF, &c08::DEF, &c09::DEF, &c10::DEF, &c11::DEF, &c12::DEF, &c13::DEF, &c14::DEF, &c15::DEF, &c16::DEF, &c17::DEF, &c18::DEF, &c19::DEF]
}

pub fn find_check(id: &str) -> Option<&'static CheckDef> {
    all().into_iter().find(|c| c.id == id)
}
