//! C04 - element-wise operations follow right-aligned broadcasting, or refuse.
//!
//! Oracle: reference `zip` (explicit multi-index arithmetic) on exact data, compared bit-for-bit.
//! Workload: the exhaustive grid of all ordered pairs of shapes of rank 1..4 with dimensions 1..3, five
//! operations each; random pairs up to rank 5 / dimension 6 beyond.

use super::shapes::*;
use super::CheckDef;
use crate::cg::*;
use crate::ctx::{guard, panic_class, Ctx, Tier};
use crate::refmodel::*;
use crate::rng::Rng;
use corgi::array::Array;

pub static DEF: CheckDef = CheckDef {
    id: "C04",
    families,
    run_case,
    rule: "grid: every ordered pair of shapes (rank 1..4, dims 1..3) x {add,sub,mul,div,axpy} with distinct \
           integer data; rand: random pairs (rank<=5, dim<=6), half derived from a common shape by dropping \
           leading dims / unit-ising dims, half arbitrary. A case is non-trivial when the two shapes differ \
           (broadcasting or refusal is exercised); distinct = distinct (shape A, shape B) pairs.",
    floors,
    exhaustive,
    assumptions: &[
        "reference zip in refmodel.rs is the definition of right-aligned broadcasting",
        "IEEE-754 basic operations are correctly rounded, so a single scalar operation has one right answer",
    ],
};

const GRID: u64 = 120 * 120;

fn families(t: Tier) -> Vec<(&'static str, u64)> {
    vec![("grid", GRID), ("rand", t.n(4000, 2_000_000)), ("large", t.n(1500, 200_000))]
}
fn floors(t: Tier) -> Vec<(&'static str, u64)> {
    vec![("evaluations", t.n(18_000, 400_000)), ("admissible_checked", 30_000), ("refusals_observed", 5_000)]
}
fn exhaustive(_t: Tier) -> Option<&'static str> {
    Some("family grid: all 14400 ordered pairs of shapes with rank 1..4 and dimensions 1..3, x 5 operations")
}

const OPS: [&str; 5] = ["add", "sub", "mul", "div", "axpy"];

thread_local! {
    static ALPHA: std::cell::Cell<f64> = std::cell::Cell::new(3.0);
}
fn alpha() -> f64 {
    ALPHA.with(|a| a.get())
}

fn apply(op: &str, a: &Array, b: &Array) -> Array {
    match op {
        "add" => a + b,
        "sub" => a - b,
        "mul" => a * b,
        "div" => a / b,
        _ => Array::axpy(alpha() as corgi::numbers::Float, a, b),
    }
}
fn apply_ref(op: &str, a: &T<f64>, b: &T<f64>) -> Option<T<f64>> {
    match op {
        "add" => a.zip(b, |x, y| x + y),
        "sub" => a.zip(b, |x, y| x - y),
        "mul" => a.zip(b, |x, y| x * y),
        "div" => a.zip(b, |x, y| x / y),
        _ => {
            let al = alpha();
            a.zip(b, |x, y| al * x + y)
        }
    }
}

pub fn pair_class(da: &[usize], db: &[usize]) -> &'static str {
    if da == db {
        "same"
    } else if da.len() != db.len() {
        "rank-mismatch"
    } else {
        "unit-dims"
    }
}

/// round the f64 reference to the float width of this build (single correctly-rounded operation)
fn round_build(t: &mut T<f64>) {
    if IS_F32 {
        for x in t.v.iter_mut() {
            *x = (*x as f32) as f64;
        }
    }
}

pub fn run_case(ctx: &mut Ctx, fam: &str, k: u64, r: &mut Rng) {
    let (da, db, va, vb): (Vec<usize>, Vec<usize>, Vec<f64>, Vec<f64>);
    if fam == "grid" {
        let shapes = all_shapes(4, 3);
        da = shapes[(k / 120) as usize].clone();
        db = shapes[(k % 120) as usize].clone();
        va = distinct_vals(numel(&da), 2);
        vb = distinct_vals(numel(&db), 101);
    } else if fam == "large" {
        // one long dimension (9..40) somewhere, so that vectorised / blocked inner loops meet their tails
        let mut full = rand_shape(r, 3, 3);
        let i = r.below(full.len());
        full[i] = super::shapes::long_dim(r);
        if r.chance(1, 6) {
            // ranks 5..6 with unit dimensions inside
            full = super::shapes::high_rank_shape(r);
        }
        da = if r.chance(1, 2) { full.clone() } else { partner(r, &full) };
        db = if r.chance(1, 2) { full.clone() } else { partner(r, &full) };
        va = (0..numel(&da)).map(|_| 0.25 * r.int(-36, 36)).collect();
        vb = (0..numel(&db)).map(|_| 0.25 * r.int(1, 36)).collect();
    } else {
        if r.chance(1, 2) {
            let full = rand_shape(r, 5, 6);
            da = partner(r, &full);
            db = if r.chance(1, 3) { full.clone() } else { partner(r, &full) };
        } else {
            da = rand_shape(r, 5, 4);
            db = rand_shape(r, 5, 4);
        }
        if r.chance(1, 6) {
            // special values: zeros, infinities, NaN (a single IEEE operation per element still has one right answer)
            let sp = [0.0, -0.0, f64::INFINITY, f64::NEG_INFINITY, f64::NAN, 1.0, -2.0];
            va = (0..numel(&da)).map(|_| *r.pick(&sp)).collect();
            vb = (0..numel(&db)).map(|_| *r.pick(&sp)).collect();
        } else if r.chance(1, 2) {
            va = distinct_vals(numel(&da), 2);
            vb = distinct_vals(numel(&db), 1001);
        } else {
            va = rand_ints(r, numel(&da), -9, 9);
            vb = rand_ints(r, numel(&db), 1, 9);
        }
    }
    // the grid uses alpha = 3; elsewhere alpha varies over values with likely shortcuts
    ALPHA.with(|a| a.set(if fam == "grid" { 3.0 } else { *r.pick(&[0.0, 1.0, -1.0, 3.0, -2.0, 0.5]) }));
    // divisors of either sign
    let vb: Vec<f64> = if fam != "grid" && r.chance(1, 3) { vb.iter().map(|x| if r.chance(1, 2) { -*x } else { *x }).collect() } else { vb };
    let cls = pair_class(&da, &db);
    let desc = format!("{:?}x{:?}", da, db);
    ctx.case(&desc, da != db);
    ctx.hist("pairs_by_class", cls);
    let ta: T<f64> = T::from_f64(&da, &va);
    let tb: T<f64> = T::from_f64(&db, &vb);
    let admissible = bshape(&da, &db).is_some();
    ctx.sample(&format!("{}-{}", cls, admissible), || {
        format!("{} {:?} (x) {:?} admissible={} a[0..]={} b[0..]={}", fam, da, db, admissible, short(&va[..va.len().min(4)]), short(&vb[..vb.len().min(4)]))
    });
    let mut meta = String::new();
    for op in OPS {
        let a = arr(&da, &va);
        let b = arr(&db, &vb);
        let got = guard(|| {
            let r = apply(op, &a, &b);
            (r.dimensions().to_vec(), vals(&r))
        });
        let want = apply_ref(op, &ta, &tb);
        match (got, want) {
            (Ok((gd, gv)), Some(mut w)) => {
                round_build(&mut w);
                ctx.count("admissible_checked", 1);
                ctx.count("elements_compared", w.v.len() as u64);
                meta.push_str(&format!(" {}:ok{:?}", op, gd));
                if let Err((kind, detail)) = compare(&gd, &gv, &w, Rule::Exact) {
                    ctx.violation(
                        &format!("C04|{}|{}|wrong-{}", op, cls, kind),
                        format!("{} of {:?} and {:?}: {}", op, da, db, detail),
                    );
                }
            }
            (Err(msg), Some(_)) => {
                ctx.count("admissible_checked", 1);
                meta.push_str(&format!(" {}:panic", op));
                ctx.violation(
                    &format!("C04|{}|{}|panic-on-admissible", op, cls),
                    format!("{} of {:?} and {:?} panicked: {}", op, da, db, msg),
                );
            }
            (Ok((gd, gv)), None) => {
                meta.push_str(&format!(" {}:ok{:?}", op, gd));
                ctx.count("inadmissible_checked", 1);
                ctx.violation(
                    &format!("C04|{}|{}|accepted-inadmissible", op, cls),
                    format!("{} of {:?} and {:?} must be refused but returned dims {:?} values {}", op, da, db, gd, short(&gv)),
                );
            }
            (Err(msg), None) => {
                meta.push_str(&format!(" {}:panic", op));
                ctx.count("inadmissible_checked", 1);
                ctx.count("refusals_observed", 1);
                ctx.hist("refusal_messages", &panic_class(&msg));
            }
        }
    }
    ctx.meta(|| format!("{}{}", desc, meta));
}
