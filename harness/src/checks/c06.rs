//! C06 - convolution equals the direct sliding-window definition.

use super::shapes::*;
use super::CheckDef;
use crate::cg::*;
use crate::ctx::{guard, panic_class, Ctx, Tier};
use crate::refmodel::*;
use crate::rng::Rng;

pub static DEF: CheckDef = CheckDef {
    id: "C06",
    families,
    run_case,
    rule: "grid: image rows/cols 1..5, filter rows/cols 1..3 (<= image), strides 1..3 independently, depth 1..2, \
           filter count 1..2, batch absent/[1]/[2] - enumerated completely in the thorough tier, every 7th case in \
           quick; large: images up to 16x16, filters up to 5x5, strides 1..4, depth 1..4, count 1..5; rand: images up to 7x7, depth 1..3, count 1..4, batch absent/[1]/[2..3]/[2,2]. Integer data, \
           bit-exact comparison with the 7-loop definition. Non-trivial = more than one window or depth > 1 or a \
           batch; distinct = distinct (image dims, filter dims, strides).",
    floors,
    exhaustive: |t| if t == Tier::Thorough { Some("family grid: all (h,w<=5, f<=3 and <=image, s<=3, depth<=2, count<=2, batch in {none,[1],[2]})") } else { None },
    assumptions: &[
        "reference conv in refmodel.rs (seven nested loops over batch, filter, output position, depth, filter position) is the definition",
        "filters are rank 4 [count, depth, rows, cols]; image rank >= 3",
    ],
};

fn grid_cases() -> Vec<[usize; 9]> {
    // h, w, fr, fc, sr, sc, d, cnt, batchform
    let mut v = vec![];
    for h in 1..=5 {
        for w in 1..=5 {
            for fr in 1..=3usize.min(h) {
                for fc in 1..=3usize.min(w) {
                    for sr in 1..=3 {
                        for sc in 1..=3 {
                            for d in 1..=2 {
                                for cnt in 1..=2 {
                                    for b in 0..3 {
                                        v.push([h, w, fr, fc, sr, sc, d, cnt, b]);
                                    }
                                }
                            }
                        }
                    }
                }
            }
        }
    }
    v
}

fn families(t: Tier) -> Vec<(&'static str, u64)> {
    let g = grid_cases().len() as u64;
    vec![("grid", t.n(g / 7, g)), ("rand", t.n(6_000, 1_000_000)), ("nonfinite", t.n(1_000, 150_000)), ("large", t.n(800, 100_000))]
}
fn floors(_t: Tier) -> Vec<(&'static str, u64)> {
    vec![
        ("evaluations", 8_000),
        ("bucket_batched_overlap_remainder", 100),
        ("bucket_batched", 1_500),
        ("bucket_overlap", 1_500),
        ("bucket_remainder", 1_500),
        ("frames_after_the_first", 2_000),
        ("frames_built_in_a_buffer_an_earlier_frame_used", 300),
    ]
}

pub fn run_case(ctx: &mut Ctx, fam: &str, k: u64, r: &mut Rng) {
    let (h, w, fr, fc, sr, sc, d, cnt, batch): (usize, usize, usize, usize, usize, usize, usize, usize, Vec<usize>);
    if fam == "grid" {
        let g = grid_cases();
        let idx = if ctx.tier == Tier::Thorough { k as usize } else { (k as usize * 7 + (ctx.seed as usize % 7)) % g.len() };
        let c = g[idx];
        h = c[0];
        w = c[1];
        fr = c[2];
        fc = c[3];
        sr = c[4];
        sc = c[5];
        d = c[6];
        cnt = c[7];
        batch = match c[8] {
            0 => vec![],
            1 => vec![1],
            _ => vec![2],
        };
    } else if fam == "large" {
        fr = r.range(1, 5);
        fc = r.range(1, 5);
        // mostly up to 16x16; one case in four is much wider than tall (or the reverse), up to 40 pixels
        let (eh, ew) = match r.below(8) {
            0 => (r.below(3), r.range(12, 36)),
            1 => (r.range(12, 36), r.below(3)),
            _ => (r.below(12), r.below(12)),
        };
        h = fr + eh;
        w = fc + ew;
        // strides up to 6: larger than any filter side now and then
        sr = if r.chance(1, 5) { r.range(4, 6) } else { r.range(1, 4) };
        sc = if r.chance(1, 5) { r.range(4, 6) } else { r.range(1, 4) };
        d = r.range(1, 5);
        cnt = r.range(1, 6);
        batch = match r.below(7) {
            0 => vec![],
            1 => vec![1],
            2 | 3 => vec![r.range(2, 4)],
            4 => vec![r.range(5, 7)],
            5 => vec![3, 2],
            _ => vec![2, 2],
        };
    } else {
        fr = r.range(1, 3);
        fc = r.range(1, 3);
        h = fr + r.below(5);
        w = fc + r.below(5);
        sr = r.range(1, 3);
        sc = r.range(1, 3);
        d = r.range(1, 3);
        cnt = r.range(1, 4);
        batch = match r.below(5) {
            0 => vec![],
            1 => vec![1],
            2 | 3 => vec![r.range(2, 3)],
            _ => vec![2, 2],
        };
    }
    let mut di = batch.clone();
    di.extend(&[d, h, w]);
    let df = vec![cnt, d, fr, fc];
    // integers, or (half of the non-grid cases) multiples of 1/4: exact in any summation order, but not integral
    let frac = fam != "grid" && r.chance(1, 2);
    let mut vi: Vec<f64> = if frac { (0..numel(&di)).map(|_| 0.25 * r.int(-9, 9)).collect() } else { rand_ints(r, numel(&di), -9, 9) };
    let mut vf: Vec<f64> = if frac { (0..numel(&df)).map(|_| 0.25 * r.int(-5, 5)).collect() } else { rand_ints(r, numel(&df), -5, 5) };
    if frac {
        ctx.count("cases_with_fractional_data", 1);
    }
    if fam == "nonfinite" {
        // zeros next to infinities / NaN: the IEEE sum of products must still be produced (0 * inf = NaN)
        for v in [&mut vi, &mut vf] {
            for x in v.iter_mut() {
                match r.below(10) {
                    0 | 1 => *x = 0.0,
                    2 => *x = f64::INFINITY,
                    3 => *x = f64::NEG_INFINITY,
                    4 => *x = f64::NAN,
                    _ => {}
                }
            }
        }
        ctx.count("nonfinite_cases", 1);
    }
    let (oh, ow) = ((h - fr) / sr + 1, (w - fc) / sc + 1);
    let overlap = (sr < fr && oh > 1) || (sc < fc && ow > 1);
    let remainder = (h - fr) % sr != 0 || (w - fc) % sc != 0;
    let batched = numel(&batch) > 1;
    let cell = format!(
        "batch-{}|{}|{}",
        if batch.is_empty() { "none".to_string() } else { format!("{:?}", batch.len()) + if batched { "N" } else { "1" } },
        if overlap { "overlap" } else { "disjoint" },
        if remainder { "remainder" } else { "divides" }
    );
    let desc = format!("{:?}*{:?}/({},{})", di, df, sr, sc);
    ctx.case(&desc, oh * ow > 1 || d > 1 || !batch.is_empty());
    ctx.hist("cells", &cell);
    if batched {
        ctx.count("bucket_batched", 1);
    }
    if overlap {
        ctx.count("bucket_overlap", 1);
    }
    if remainder {
        ctx.count("bucket_remainder", 1);
    }
    if batched && overlap && remainder {
        ctx.count("bucket_batched_overlap_remainder", 1);
    }
    let ti: T<f64> = T::from_f64(&di, &vi);
    let tf_: T<f64> = T::from_f64(&df, &vf);
    let want = T::conv(&ti, &tf_, sr, sc).expect("generator produces admissible convolutions");
    ctx.sample(&cell, || format!("conv {} image={} filters={} -> {:?}{}", desc, short(&vi), short(&vf), want.dims, short(&want.v)));
    let img = arr(&di, &vi);
    let fil = arr(&df, &vf);
    match guard(|| {
        let r = img.conv(&fil, (sr, sc));
        (r.dimensions().to_vec(), vals(&r))
    }) {
        Ok((gd, gv)) => {
            ctx.count("elements_compared", want.v.len() as u64);
            ctx.meta(|| format!("{} ok{:?}", desc, gd));
            if let Err((kind, detail)) = compare(&gd, &gv, &want, Rule::Exact) {
                ctx.violation(&format!("C06|{}|wrong-{}", cell, kind), format!("conv {}: {}\nimage={} filters={}", desc, detail, short(&vi), short(&vf)));
            }
        }
        Err(msg) => {
            ctx.meta(|| format!("{} panic", desc));
            ctx.violation(&format!("C06|{}|panic:{}", cell, panic_class(&msg)), format!("conv {} panicked: {}", desc, msg));
        }
    }
    // the same image array again, with filters of the transposed shape (same element count, same strides): whatever the
    // first call worked out about the image belongs to that call
    if fr != fc && fc <= h && fr <= w && fam != "nonfinite" {
        let df2 = vec![cnt, d, fc, fr];
        let tf2: T<f64> = T::from_f64(&df2, &vf);
        if let Some(want2) = T::conv(&ti, &tf2, sr, sc) {
            let fil2 = arr(&df2, &vf);
            ctx.count("second_conv_on_the_same_image", 1);
            match guard(|| {
                let r = img.conv(&fil2, (sr, sc));
                (r.dimensions().to_vec(), vals(&r))
            }) {
                Ok((gd, gv)) => {
                    if let Err((kind, detail)) = compare(&gd, &gv, &want2, Rule::Exact) {
                        ctx.violation(&format!("C06|{}|same-image-other-filters|wrong-{}", cell, kind), format!("conv of the same image array with filters {:?} right after filters {:?}: {}\nimage={} filters={}", df2, df, detail, short(&vi), short(&vf)));
                    }
                }
                Err(msg) => ctx.violation(&format!("C06|{}|same-image-other-filters|panic:{}", cell, panic_class(&msg)), format!("second conv on the same image panicked: {}", msg)),
            }
        }
    }
    // a stream of frames: the image is dropped and the next one of the same geometry is built (allocators hand the
    // freed buffer out again), convolved with the same filters. Nothing of an earlier frame may show in a later one.
    if fam != "nonfinite" && fam != "grid" && r.chance(1, 3) {
        let nframes = r.range(2, 4);
        let frames: Vec<(Vec<f64>, T<f64>)> = (0..nframes)
            .map(|_| {
                let v: Vec<f64> = if frac { (0..numel(&di)).map(|_| 0.25 * r.int(-9, 9)).collect() } else { rand_ints(r, numel(&di), -9, 9) };
                let w = T::conv(&T::from_f64(&di, &v), &tf_, sr, sc).expect("same geometry");
                (v, w)
            })
            .collect();
        let filt = if r.chance(1, 2) { fil.clone().tracked() } else { fil.clone() };
        let mut seen = vec![img.values().as_ptr() as usize];
        drop(img);
        for (j, (v, want)) in frames.iter().enumerate() {
            let im = arr(&di, v);
            let addr = im.values().as_ptr() as usize;
            if seen.contains(&addr) {
                ctx.count("frames_built_in_a_buffer_an_earlier_frame_used", 1);
            }
            seen.push(addr);
            ctx.count("frames_after_the_first", 1);
            match guard(|| {
                let r = im.conv(&filt, (sr, sc));
                (r.dimensions().to_vec(), vals(&r))
            }) {
                Ok((gd, gv)) => {
                    if let Err((kind, detail)) = compare(&gd, &gv, want, Rule::Exact) {
                        ctx.violation(&format!("C06|{}|frame-stream|wrong-{}", cell, kind), format!("frame {} of a stream of images {:?} convolved with the same filters {:?} /({},{}), earlier frames dropped: {}\nimage={} filters={}", j + 2, di, df, sr, sc, detail, short(v), short(&vf)));
                    }
                }
                Err(msg) => ctx.violation(&format!("C06|{}|frame-stream|panic:{}", cell, panic_class(&msg)), format!("frame {} of a stream panicked: {}", j + 2, msg)),
            }
            drop(im);
        }
    }
}
