//! C05 - matrix multiplication computes the batched, optionally transposed product.
//!
//! Oracle: reference matmul (explicit indices, co-broadcast leading dims, right-aligned additive term) on integer
//! data, compared bit-for-bit; mismatching inner dimensions must be refused (panic).

use super::shapes::*;
use super::CheckDef;
use crate::cg::*;
use crate::ctx::{guard, panic_class, Ctx, Tier};
use crate::refmodel::*;
use crate::rng::Rng;
use corgi::array::Array;

pub static DEF: CheckDef = CheckDef {
    id: "C05",
    families,
    run_case,
    rule: "grid: (rows,inner,cols) in 1..3^3 x 4 transpose combinations x 7 leading-dimension patterns (none, equal, \
           left-only, right-only, unit-left, unit-right, two equal) x leading size 2/3 x additive term (absent, \
           [cols], [rows,cols], [1,cols], [1]) - enumerated completely; rand: sizes 1..4, up to two leading dims \
           with cross unit broadcasting and rank differences; large: sizes 5..20 (sometimes 33) with 0..2 leading dims; nonfinite: admissible cases whose operands contain zeros, +-inf and NaN (IEEE sum of products: 0*inf = NaN); rank1: dot, vector-matrix, vector-matrix^T, \
           vector^T-matrix, matrix-vector^T, column-vector forms with optional leading dims; mismatch: an admissible \
           case with one inner dimension perturbed (must panic). Non-trivial = product with inner > 1 or any \
           leading dimension, or a refusal; distinct = distinct (shapes, flags, term shape).",
    floors,
    exhaustive: |_| Some("family grid: 27 sizes x 4 transposes x 7 leading patterns x 2 leading sizes x 5 additive-term forms = 7560 cases"),
    assumptions: &[
        "reference matmul in refmodel.rs is the definition (rank-1 operand = one-row matrix, dot = sum a_i b_i -> [1])",
        "integer data far below 2^50: every correct evaluation order gives bit-identical results",
    ],
};

const GRID: u64 = 27 * 4 * 7 * 2 * 5;

fn families(t: Tier) -> Vec<(&'static str, u64)> {
    vec![("grid", GRID), ("rand", t.n(12_000, 1_500_000)), ("rank1", t.n(2_000, 300_000)), ("mismatch", t.n(3_000, 300_000)), ("nonfinite", t.n(2_000, 300_000)), ("large", t.n(1_500, 150_000))]
}
fn floors(_t: Tier) -> Vec<(&'static str, u64)> {
    vec![("evaluations", 15_000), ("admissible_checked", 10_000), ("refusals_observed", 1_500)]
}

pub struct MmCase {
    pub da: Vec<usize>,
    pub db: Vec<usize>,
    pub dc: Option<Vec<usize>>,
    pub ta: bool,
    pub tb: bool,
    pub cell: String,
}

fn mk(la: &[usize], lb: &[usize], m: usize, k: usize, n: usize, ta: bool, tb: bool, cform: usize, lname: &str) -> MmCase {
    let mut da = la.to_vec();
    if ta {
        da.extend(&[k, m])
    } else {
        da.extend(&[m, k])
    }
    let mut db = lb.to_vec();
    if tb {
        db.extend(&[n, k])
    } else {
        db.extend(&[k, n])
    }
    let dc = match cform {
        0 => None,
        1 => Some(vec![n]),
        2 => Some(vec![m, n]),
        3 => Some(vec![1, n]),
        _ => Some(vec![1]),
    };
    MmCase { da, db, dc, ta, tb, cell: format!("t{}{}|lead-{}|c{}", ta as u8, tb as u8, lname, cform) }
}

fn gen_grid(k: u64) -> MmCase {
    let mut k = k as usize;
    let cform = k % 5;
    k /= 5;
    let ls = 2 + k % 2;
    k /= 2;
    let lp = k % 7;
    k /= 7;
    let ta = k % 2 == 1;
    k /= 2;
    let tb = k % 2 == 1;
    k /= 2;
    let m = 1 + k % 3;
    k /= 3;
    let kk = 1 + k % 3;
    k /= 3;
    let n = 1 + k % 3;
    let (la, lb, name): (Vec<usize>, Vec<usize>, &str) = match lp {
        0 => (vec![], vec![], "none"),
        1 => (vec![ls], vec![ls], "equal"),
        2 => (vec![ls], vec![], "left-only"),
        3 => (vec![], vec![ls], "right-only"),
        4 => (vec![1], vec![ls], "unit-left"),
        5 => (vec![ls], vec![1], "unit-right"),
        _ => (vec![2, ls], vec![2, ls], "equal2"),
    };
    mk(&la, &lb, m, kk, n, ta, tb, cform, name)
}

fn gen_rand(r: &mut Rng) -> MmCase {
    let (m, k, n) = (r.range(1, 4), r.range(1, 4), r.range(1, 4));
    // up to two leading dimensions as a rule (the property's "up to 2"), now and then three - the general rule holds
    // there as well
    let nl = if r.chance(1, 10) { 3 } else { r.below(3) };
    let lead: Vec<usize> = (0..nl).map(|_| r.range(1, 3)).collect();
    let side = |r: &mut Rng| -> Vec<usize> {
        match r.below(4) {
            0 => vec![],
            1 => lead.clone(),
            2 => lead.iter().map(|d| if r.chance(1, 2) { 1 } else { *d }).collect(),
            _ => {
                if lead.is_empty() {
                    vec![]
                } else {
                    lead[1.min(lead.len() - 1)..].to_vec()
                }
            }
        }
    };
    let la = side(r);
    let lb = side(r);
    let name = if la == lb {
        if la.is_empty() {
            "none"
        } else {
            "equal"
        }
    } else if la.len() != lb.len() {
        "rank-diff"
    } else {
        "unit-mixed"
    };
    mk(&la, &lb, m, k, n, r.chance(1, 2), r.chance(1, 2), r.below(5), name)
}

fn gen_rank1(r: &mut Rng, k: u64) -> MmCase {
    let kk = r.range(1, 4);
    let n = r.range(1, 4);
    let lead: Vec<usize> = if r.chance(1, 3) { vec![r.range(2, 3)] } else { vec![] };
    let with = |l: &[usize], t: &[usize]| {
        let mut d = l.to_vec();
        d.extend(t);
        d
    };
    let (da, db, ta, tb, dc, name): (Vec<usize>, Vec<usize>, bool, bool, Option<Vec<usize>>, &str) = match k % 6 {
        0 => (vec![kk], vec![kk], false, false, if r.chance(1, 3) { Some(vec![1]) } else { None }, "dot"),
        1 => (vec![kk], with(&lead, &[kk, n]), false, false, if r.chance(1, 3) { Some(vec![n]) } else { None }, "vec-mat"),
        2 => (vec![kk], with(&lead, &[n, kk]), false, true, if r.chance(1, 2) { Some(vec![n]) } else { None }, "vec-matT"),
        3 => (vec![kk], with(&lead, &[1, n]), true, false, if r.chance(1, 3) { Some(vec![n]) } else { None }, "vecT-mat"),
        4 => (with(&lead, &[n, kk]), vec![kk], false, true, if r.chance(1, 3) { Some(vec![1]) } else { None }, "mat-vecT"),
        _ => (with(&lead, &[n, 1]), vec![kk], false, false, if r.chance(1, 3) { Some(vec![kk]) } else { None }, "col-vec"),
    };
    MmCase { da, db, dc, ta, tb, cell: format!("rank1-{}", name) }
}

fn sprinkle(r: &mut Rng, v: &mut [f64]) {
    // zeros next to infinities and NaNs: IEEE semantics of the sum of products (0 * inf = NaN, inf - inf = NaN)
    for x in v.iter_mut() {
        match r.below(10) {
            0 | 1 => *x = 0.0,
            2 => *x = f64::INFINITY,
            3 => *x = f64::NEG_INFINITY,
            4 => *x = f64::NAN,
            _ => {}
        }
    }
}

fn run_mm(ctx: &mut Ctx, c: &MmCase, r: &mut Rng, expect_refusal: bool) {
    // integers, or (half of the non-grid cases) multiples of 1/4: still exact in any summation order, but not integral
    let frac = !c.cell.starts_with("t") && r.chance(1, 2);
    let gen = |r: &mut Rng, n: usize| -> Vec<f64> { if frac { (0..n).map(|_| 0.25 * r.int(-9, 9)).collect() } else { rand_ints(r, n, -9, 9) } };
    let mut va = gen(r, numel(&c.da));
    let mut vb = gen(r, numel(&c.db));
    if frac {
        ctx.count("cases_with_fractional_data", 1);
    }
    if c.cell.starts_with("nonfinite") {
        sprinkle(r, &mut va);
        sprinkle(r, &mut vb);
        ctx.count("nonfinite_cases", 1);
    }
    let vc = c.dc.as_ref().map(|d| gen(r, numel(d)));
    let ta_: T<f64> = T::from_f64(&c.da, &va);
    let tb_: T<f64> = T::from_f64(&c.db, &vb);
    let tc_: Option<T<f64>> = c.dc.as_ref().map(|d| T::from_f64(d, vc.as_ref().unwrap()));
    let want = T::matmul(&ta_, c.ta, &tb_, c.tb, tc_.as_ref());
    let desc = format!("{:?}{}x{:?}{}+{:?}", c.da, if c.ta { "^T" } else { "" }, c.db, if c.tb { "^T" } else { "" }, c.dc);
    let inner = if c.da.len() == 1 { c.da[0] } else if c.ta { c.da[c.da.len() - 2] } else { c.da[c.da.len() - 1] };
    ctx.case(&desc, inner > 1 || c.da.len() > 2 || c.db.len() > 2 || want.is_none());
    ctx.hist("cells", &c.cell);
    ctx.sample(&c.cell.split('|').nth(1).unwrap_or(&c.cell).to_string(), || {
        format!("matmul {} a={} b={} c={:?} -> {}", desc, short(&va), short(&vb), vc, match &want { Some(w) => format!("{:?}{}", w.dims, short(&w.v)), None => "refusal expected".into() })
    });
    let a = arr(&c.da, &va);
    let b = arr(&c.db, &vb);
    let cc = c.dc.as_ref().map(|d| arr(d, vc.as_ref().unwrap()));
    let got = guard(|| {
        let r = Array::matmul((&a, c.ta), (&b, c.tb), cc.as_ref());
        (r.dimensions().to_vec(), vals(&r))
    });
    match (got, want) {
        (Ok((gd, gv)), Some(w)) => {
            ctx.count("admissible_checked", 1);
            ctx.count("elements_compared", w.v.len() as u64);
            ctx.meta(|| format!("{} ok{:?}", desc, gd));
            if expect_refusal {
                ctx.count("generator_mismatch_was_admissible", 1);
            }
            if let Err((kind, detail)) = compare(&gd, &gv, &w, Rule::Exact) {
                ctx.violation(&format!("C05|{}|wrong-{}", c.cell, kind), format!("matmul {}: {}\na={} b={} c={:?}", desc, detail, short(&va), short(&vb), vc));
            }
        }
        (Err(msg), Some(_)) => {
            ctx.count("admissible_checked", 1);
            ctx.meta(|| format!("{} panic", desc));
            ctx.violation(
                &format!("C05|{}|panic-on-admissible:{}", c.cell, panic_class(&msg)),
                format!("matmul {} panicked: {}", desc, msg),
            );
        }
        (Ok((gd, gv)), None) => {
            ctx.count("inadmissible_checked", 1);
            ctx.meta(|| format!("{} ok{:?}", desc, gd));
            ctx.violation(
                &format!("C05|{}|accepted-mismatch", c.cell),
                format!("matmul {} has mismatching inner dimensions and must be refused, but returned dims {:?} values {}", desc, gd, short(&gv)),
            );
        }
        (Err(msg), None) => {
            ctx.count("inadmissible_checked", 1);
            ctx.count("refusals_observed", 1);
            ctx.hist("refusal_messages", &panic_class(&msg));
            ctx.meta(|| format!("{} panic", desc));
        }
    }
}

pub fn run_case(ctx: &mut Ctx, fam: &str, k: u64, r: &mut Rng) {
    match fam {
        "grid" => {
            let c = gen_grid(k);
            run_mm(ctx, &c, r, false)
        }
        "rand" => {
            let c = gen_rand(r);
            run_mm(ctx, &c, r, false)
        }
        "rank1" => {
            let c = gen_rank1(r, k);
            run_mm(ctx, &c, r, false)
        }
        "large" => {
            // sizes beyond any blocking / unrolling threshold (5..20, occasionally 33), 0..2 leading dims
            let pick = |r: &mut Rng| -> usize { if r.chance(1, 10) { *r.pick(&[31, 33, 63, 64, 65]) } else { r.range(5, 20) } };
            let (mut m, mut kk, mut n) = (pick(r), pick(r), pick(r));
            // now and then a long inner dimension (dot products of 100..260 terms) between small outer ones
            if r.chance(1, 8) {
                kk = *r.pick(&[100, 127, 128, 129, 132, 200, 256, 260]);
                m = r.range(1, 4);
                n = r.range(1, 4);
            }
            let lead: Vec<usize> = match r.below(4) { 0 => vec![], 1 => vec![r.range(2, 3)], 2 => vec![1, 2], _ => vec![2, 1] };
            let mut la = if r.chance(1, 3) { vec![] } else { lead.clone() };
            let mut lb = if r.chance(1, 3) { vec![] } else if r.chance(1, 3) { lead.iter().map(|_| 1).collect() } else { lead.clone() };
            if r.chance(1, 5) {
                // ranks differ and both sides are batched: [l1, l2, ..] x [l2, ..] and the mirror image
                let (l1, l2) = (r.range(2, 3), r.range(2, 3));
                la = vec![l1, l2];
                lb = vec![l2];
                if r.chance(1, 2) {
                    std::mem::swap(&mut la, &mut lb);
                }
            }
            let mut c = mk(&la, &lb, m, kk, n, r.chance(1, 2), r.chance(1, 2), r.below(5), "large");
            c.cell = format!("large|{}", c.cell);
            run_mm(ctx, &c, r, false)
        }
        "nonfinite" => {
            let mut c = if k % 4 == 0 { gen_rank1(r, k / 4) } else if k % 4 == 1 { gen_rand(r) } else { gen_grid(r.below(GRID as usize) as u64) };
            c.cell = format!("nonfinite|{}", c.cell);
            run_mm(ctx, &c, r, false)
        }
        _ => {
            // perturb one inner dimension of an admissible case
            let mut c = if k % 3 == 0 { gen_rank1(r, k / 3) } else if k % 3 == 1 { gen_grid(r.below(GRID as usize) as u64) } else { gen_rand(r) };
            c.dc = None;
            let bump = r.range(1, 2);
            if r.chance(1, 2) {
                // inner dimension of a
                let la = c.da.len();
                let i = if la == 1 { 0 } else if c.ta { la - 2 } else { la - 1 };
                c.da[i] += bump;
            } else {
                let lb = c.db.len();
                let i = if lb == 1 { 0 } else if c.tb { lb - 1 } else { lb - 2 };
                c.db[i] += bump;
            }
            c.cell = format!("mismatch-{}", c.cell.split('|').next().unwrap_or(""));
            run_mm(ctx, &c, r, true)
        }
    }
}
